"""The per-property checks. Every check decides its property with the TLA+
specification: TLC explores a bounded model of the property (invariants in
every state) and prints the behaviours; the behaviours are replayed into the
real interpreter (spec -> impl), and recorded executions of the real
interpreter are validated against the specification (impl -> spec)."""
import hashlib
import json
import os
import re
import shutil
import time

import seedverif as sv
import replay as rp

KNOWN = os.path.join(sv.ROOT, "known_findings.json")


class Ctx:
    def __init__(self, prop, tier, seed):
        self.prop = prop
        self.tier = tier
        self.seed = seed
        self.quick = tier == "quick"
        self.states = 0
        self.transitions = 0
        self.validated = 0           # behaviours replayed + traces validated on this run
        self.evaluations = 0
        self.nontrivial = set()
        self.samples = []
        self.models = {}
        self.actions = {}
        self.notes = []
        self.nviol = 0
        self.nknown = 0
        self.rule = ""
        self.exhaustive = True
        self.assumptions = []
        self.skipped = {}
        try:
            self.known = json.load(open(KNOWN)).get("findings", [])
        except FileNotFoundError:
            self.known = []
        self.vdir = os.path.join(sv.WORK, "violations")
        os.makedirs(self.vdir, exist_ok=True)

    # ---- verdicts
    def violation(self, what, script=None, detail=None, prop=None):
        """Reports one violation (or a KNOWN-FINDING if the failing script is listed)."""
        prop = prop or self.prop
        if script is not None:
            for kf in self.known:
                if kf.get("property") == prop and kf.get("script") == script:
                    self.nknown += 1
                    print("KNOWN-FINDING: property=%s %s" % (prop, kf.get("what", what)))
                    return
        self.nviol += 1
        if self.nviol > 25:
            return
        h = hashlib.sha1(((script or "") + what + json.dumps(detail, sort_keys=True, default=str))
                         .encode()).hexdigest()[:10]
        d = os.path.join(self.vdir, "%s-%s" % (prop, h))
        os.makedirs(d, exist_ok=True)
        if script is not None:
            with open(os.path.join(d, "script.sd"), "w", encoding="utf-8", errors="surrogateescape") as f:
                f.write(script)
        with open(os.path.join(d, "violation.json"), "w") as f:
            json.dump({"property": prop, "what": what, "detail": detail}, f, indent=1, default=str)
        print("VIOLATION property=%s replay=%s" % (prop, d))
        print("  " + what)

    def skip(self, why, n=1):
        self.skipped[why] = self.skipped.get(why, 0) + n

    def sample(self, s):
        if len(self.samples) < 6:
            self.samples.append(s)

    # ---- TLC
    def run_model(self, module, params, max_steps=3000, invariants=(), props=(), name=None,
                  constants=None, timeout=3000, workers=None, init="MCInit", nxt="MCNext",
                  minint="MCMinInt", maxint="MCMaxInt", progof=None, constraint="Fuel",
                  extra_cfg=""):
        """Writes a cfg for an MC_* module and runs TLC on it. Returns the output lines."""
        name = name or module
        cfg = os.path.join(sv.scratch("cfg", clean=False), name + ".cfg")
        lines = ["INIT " + init, "NEXT " + nxt, "CONSTANTS",
                 "  MinInt <- " + minint, "  MaxInt <- " + maxint]
        if params:
            lines.append("  Params <- " + params)
            lines.append("  ProgOf <- " + (progof or module[3:] + "ProgOf"))
            lines.append("  MaxSteps = %d" % max_steps)
        for kx, v in (constants or {}).items():
            lines.append("  %s %s" % (kx, v))
        inv = ["Emit", "HeapClosed", "UnderscoreNeverInScope", "FailureIsLocated", "KeysAreText"] \
            if params else []
        inv += list(invariants)
        if inv:
            lines.append("INVARIANTS")
            lines += ["  " + i for i in inv]
        if props:
            lines.append("PROPERTIES")
            lines += ["  " + i for i in props]
        if constraint:
            lines.append("CONSTRAINT " + constraint)
        lines.append("CHECK_DEADLOCK TRUE")
        if extra_cfg:
            lines.append(extra_cfg)
        open(cfg, "w").write("\n".join(lines) + "\n")
        # deep, narrow state graphs (few programs, long runs) get slower with many workers
        rc, out = sv.tlc(module, cfg=cfg, workers=workers or 6, timeout=timeout, metaname=name,
                         coverage=not self.quick)
        if not sv.tlc_ok(rc, out):
            raise sv.ToolError("TLC on %s (%s) did not complete cleanly (rc=%d):\n%s"
                               % (module, name, rc, sv.tlc_error_text(out) or "\n".join(out[-15:])))
        st = sv.tlc_stats(out)
        self.states += st["distinct"]
        self.transitions += st["generated"]
        self.models[name] = {"module": module, "params": params, "distinct_states": st["distinct"],
                             "states_generated": st["generated"], "depth": st["depth"],
                             "invariants": inv, "properties": list(props)}
        for l in out:
            m = re.match(r"<(\w+) line \d+, col \d+ to line \d+, col \d+ of module (\w+)>: (\d+):(\d+)", l)
            if m:
                a = m.group(1)
                self.actions[a] = self.actions.get(a, 0) + int(m.group(4))
        return out

    # ---- replay of TLC behaviours into the implementation
    def replay(self, lines, name, seeds=(None,), render_opts=None, nontrivial=None, check_ast=True):
        cases = rp.join_runs(lines)
        no_outcome = [c for c in cases if c[2] is None]
        if no_outcome:
            self.skip("no outcome within fuel", len(no_outcome))
        bad, cnt = rp.replay(cases, name, seeds=seeds, render_opts=render_opts, check_ast=check_ast)
        self.evaluations += cnt["replayed"]
        self.validated += cnt["replayed"]
        for key, body, outcome in cases:
            if outcome is None:
                continue
            if nontrivial is None or nontrivial(key, body, outcome):
                self.nontrivial.add(name + ":" + key)
        for key, body, outcome in cases[:: max(1, len(cases) // 3)][:3]:
            if outcome is not None:
                try:
                    pl = rp.Placed(body)
                    self.sample({"model": name, "params": json.loads(key), "program": pl.text,
                                 "predicted": sv.show_exp(sv.expected(outcome, "p.sd", pl.loc))})
                except Exception as ex:
                    self.sample({"model": name, "params": json.loads(key), "error": repr(ex)})
        for b in bad:
            script = None
            if b.get("file"):
                try:
                    script = open(os.path.join(cnt["dir"], b["file"]), encoding="utf-8").read()
                except Exception:
                    script = None
            if b["kind"] == "render-error":
                raise sv.ToolError("renderer failed on %s: %s" % (b["key"], b.get("error")))
            if b["kind"] == "crash":
                self.violation("the interpreter crashed (%s) on a generated program (%s %s)"
                               % (b.get("detail"), name, b["key"]), script=script, detail=b, prop="C02")
                continue
            if b["kind"] == "stderr-form":
                self.violation("malformed diagnostic (%s %s): %s" % (name, b["key"], b.get("detail")),
                               script=script, detail=b, prop="C17" if self.prop != "C03" else "C03")
                continue
            if b["kind"] == "behaviour":
                what = "implementation differs from the specification on a generated program (%s %s)" \
                    % (name, b["key"])
            elif b["kind"] == "ast-mismatch":
                what = "the real parser's tree differs from the generated tree (%s %s): %s" \
                    % (name, b["key"], b.get("detail"))
            else:
                what = "the real parser rejected a rendered program (%s %s): %s" \
                    % (name, b["key"], b.get("detail"))
            self.violation(what, script=script, detail=b)
        return cases, bad

    # ---- evidence
    def finish(self, wall):
        never = sorted(a for a, n in self.actions.items() if n == 0)
        cov = {
            "states": max(self.states, 0),
            "transitions": max(self.transitions, 0),
            "traces_validated_against_impl": self.validated,
            "samples": self.samples or [{"note": "no sample recorded"}],
            "evaluations": max(self.evaluations, 1),
            "distinct_nontrivial": len(self.nontrivial),
            "rule": self.rule,
            "exhaustive": self.exhaustive,
            "models": self.models,
            "actions_taken": {a: n for a, n in sorted(self.actions.items()) if n > 0},
            "actions_never_taken_in_these_models": never,
            "skipped": self.skipped,
            "known_findings_matched": self.nknown,
            "notes": self.notes,
            "checker_cmd": "tlc -workers N -coverage 1 -config work/cfg/<model>.cfg spec/<module>.tla",
            "trusted_base": ["TLC 2 (tla2tools 1.8.0)", "CommunityModules Json/IOUtils/SequencesExt",
                             "lib/render.py (checked by the AST round trip)", "rustc/cargo"],
        }
        ev = {"property_id": self.prop, "tier": self.tier, "seed": self.seed,
              "level": "model_checking", "coverage": cov,
              "assumptions": self.assumptions, "wall_s": round(wall, 1), "violations": self.nviol}
        os.makedirs(os.path.join(sv.ROOT, "evidence"), exist_ok=True)
        with open(os.path.join(sv.ROOT, "evidence", self.prop + ".json"), "w") as f:
            json.dump(ev, f, indent=1)
        print("property=%s tier=%s states=%d replayed/validated=%d nontrivial=%d violations=%d known=%d wall=%.0fs"
              % (self.prop, self.tier, self.states, self.validated, len(self.nontrivial),
                 self.nviol, self.nknown, wall))
        return 1 if self.nviol else 0


def replay_dir(ctx, d):
    """Re-runs the script of a recorded violation and shows what happens now."""
    plain = sv.build(False)
    p = os.path.join(d, "script.sd")
    if not os.path.exists(p):
        print("no script.sd in", d)
        return 2
    so, se, code = sv.run_seed(plain, "script.sd", d)
    print(json.dumps({"stdout": so.decode(errors="replace"), "stderr": se.decode(errors="replace"),
                      "exit": code}, indent=1))
    try:
        print(open(os.path.join(d, "violation.json")).read())
    except FileNotFoundError:
        pass
    return 0


# --------------------------------------------------------------------------
# impl -> spec: recorded executions validated against the specification

def corpus_validate(ctx, scripts, name, prop=None):
    """scripts: list of (label, text). Each is run on the real interpreter
    (unhooked: verdict; hooked: AST) and executed in the specification on the
    parsed tree; the observed stdout / stderr / exit must be what the
    specification allows."""
    plain = sv.build(False)
    hooked = sv.build(True)
    d = sv.scratch("corpus-" + name)
    names = sv.write_scripts(d, [t.encode("utf-8", errors="surrogateescape") for _, t in scripts])
    dumps = sv.pmap(lambda n: sv.dump(hooked, d, n), names)
    runs = sv.pmap(lambda n: sv.run_seed(plain, n, d), names)
    bodies, idx = [], []
    for i, (evs, _, _, _) in enumerate(dumps):
        b = sv.ast_of(evs)
        if b is None:
            ctx.skip("front-end rejected (covered by C03)")
            continue
        if not sv.in_model(b):
            ctx.skip("integer literal beyond the evaluator model's range (covered by C06)")
            continue
        bodies.append(b)
        idx.append(i)
    if not bodies:
        return 0
    outs, st = sv.spec_eval(bodies, name)
    ctx.states += st["distinct"]
    ctx.transitions += st["generated"]
    ctx.models["SeedRun:" + name] = {"module": "SeedRun", "programs": len(bodies),
                                     "distinct_states": st["distinct"],
                                     "states_generated": st["generated"]}
    n = 0
    # specification-independent: no run may crash, whatever the program
    finished = {i: (o is not None and o["status"]["k"] in ("done", "failed")) for i, o in zip(idx, outs)}
    for i, (so, se, code) in enumerate(runs):
        cr = sv.crashed(se, code)
        if cr and cr != "timeout":
            if b"has overflowed its stack" in se and not finished.get(i, False):
                # recursion without end (the specification's run does not finish either): the property is about
                # programs whose depth fits the host's stack
                ctx.skip("unbounded recursion exhausts the stack (outside C02: depth must fit the host's stack)")
                continue
            ctx.violation("the interpreter crashed (%s) on %s" % (cr, scripts[i][0]), script=scripts[i][1],
                          detail={"stderr": se.decode(errors="replace")[-2000:], "exit": code}, prop="C02")
    ctx.evaluations += len(runs)
    for i, o in zip(idx, outs):
        label, text = scripts[i]
        so, se, code = runs[i]
        if sv.crashed(se, code):
            continue
        if o is None or o["status"]["k"] not in ("done", "failed"):
            ctx.skip("no outcome within fuel")
            continue
        if o["status"]["k"] == "failed" and o["status"]["diag"]["kind"] == "IntOverflow" \
                and not (o["status"]["diag"]["msg"][3]["s"] in ("/", "%")
                         and o["status"]["diag"]["msg"][5]["n"] == 0):
            # the evaluator model's integers are narrower than the implementation's
            ctx.skip("overflow of the model's 31-bit range (covered by C06)")
            continue
        if code is None:
            ctx.skip("real run exceeded the time limit (not compared)")
            continue
        exp = sv.expected(o, names[i])
        form = sv.stderr_form(se, names[i], code)
        if form:
            ctx.violation("malformed diagnostic (%s): %s" % (label, form), script=text,
                          detail={"stderr": se.decode(errors="replace"), "exit": code}, prop="C17")
        n += 1
        ctx.evaluations += 1
        ctx.validated += 1
        ctx.nontrivial.add(name + ":" + label)
        if not sv.matches(exp, so, se, code):
            ctx.violation("recorded execution is not a behaviour of the specification (%s)" % label,
                          script=text,
                          detail={"expected": sv.show_exp(exp),
                                  "actual": {"stdout": so.decode(errors="replace"),
                                             "stderr": se.decode(errors="replace"), "exit": code},
                                  "crash": sv.crashed(se, code)}, prop=prop)
    return n


def random_scripts(seed, n, layout=True, **kw):
    """n seeded random programs (lib/randprog.py), rendered under a seeded layout."""
    import randprog
    import render as R
    out = []
    for i in range(n):
        body = randprog.program(seed * 1000003 + i, **kw)
        text, _, _ = R.render(body, (seed * 7919 + i) if layout else None)
        out.append(("random#%d/%d" % (seed, i), text))
    return out


_TOK = re.compile(r'''\$?"(?:\\\\.|[^"\\\\])*"|[A-Za-z_][A-Za-z_0-9]*|[0-9][0-9_]*|===|!==|:=|==|!=|<=|>=|&&|\|\||\+=|-=|\*=|/=|%=|->|\.\.|#[^\n]*|\s+|.''', re.S)
_OPS = ["+", "-", "*", "/", "%", "==", "!=", "<", "<=", ">", ">=", "&&", "||", "===", "!==", "..",
        "=", ":=", "+=", "-=", "*=", "/=", "%="]


def mutants(scripts, seed, per_script):
    """Token-level mutations of scripts: delete / duplicate / swap tokens, replace an
    identifier by another one of the script, an integer by a boundary value, an
    operator by another operator, a literal by a literal of another kind."""
    import random
    rnd = random.Random(seed)
    out = []
    for label, text in scripts:
        toks = _TOK.findall(text)
        sig = [i for i, t in enumerate(toks) if not t.isspace() and not t.startswith("#")]
        if len(sig) < 2:
            continue
        idents = [toks[i] for i in sig if re.match(r"[A-Za-z_]", toks[i])] or ["x"]
        for m in range(per_script):
            ts = list(toks)
            for _ in range(rnd.choice([1, 1, 2])):
                i = rnd.choice(sig)
                kind = rnd.randrange(8)
                t = ts[i]
                if kind == 0:
                    ts[i] = ""
                elif kind == 1:
                    ts[i] = t + " " + t
                elif kind == 2:
                    j = rnd.choice(sig)
                    ts[i], ts[j] = ts[j], ts[i]
                elif kind == 3 and re.match(r"[A-Za-z_]", t):
                    ts[i] = rnd.choice(idents)
                elif kind == 4 and t[:1].isdigit():
                    ts[i] = rnd.choice(["0", "1", "9223372036854775807", "2", "100"])
                elif kind == 5 and t in _OPS:
                    ts[i] = rnd.choice(_OPS)
                elif kind == 6:
                    ts[i] = rnd.choice(["null", "true", "0", '"s"', "[]", "{}", "[1, 2]", '{"a": 1}', "print"])
                else:
                    ts[i] = rnd.choice(["(", ")", "[", "]", "{", "}", ",", ".", ";", "\n"]) + t
            out.append(("%s~m%d" % (label, m), "".join(ts)))
    return out


def repo_test_scripts():
    return [(t["path"], t["src"]) for t in sv.load_repo_tests()]


def doc_examples():
    """The ``` blocks of docs/features.md, each as a script (with the earlier
    blocks of its section prepended where it needs their declarations)."""
    text = open(os.path.join(sv.REPO, "docs", "features.md"), encoding="utf-8").read()
    blocks = re.findall(r"```\n(.*?)```", text, re.S)
    return [("docs/features.md#%d" % i, b) for i, b in enumerate(blocks)]


# --------------------------------------------------------------------------
# C07

def form_fuzz(ctx, cases, name, n=None):
    """Syntactic-form variants (lib/formfuzz.py) of generated programs: parsed by the real
    parser, executed in the specification on that tree, compared with the real run."""
    import formfuzz
    import render as R
    n = n or (300 if ctx.quick else 3000)
    vs = formfuzz.variants(cases, ctx.seed, per_case=1, max_cases=n)
    scripts = []
    for label, body in vs:
        try:
            text, _, _ = R.render(body, None)
        except Exception:
            continue
        scripts.append(("%s:%s" % (name, label), text))
    return corpus_validate(ctx, scripts, name + "forms")


def order_family(ctx, name):
    """The evaluation-order / exactly-once programs of MC_C01 (every sub-expression of every
    construct wrapped in a tracing call), replayed."""
    out = ctx.run_model("MC_C01", "OrderParams", max_steps=4000, name="MC_C01order")
    ctx.replay(out, name + "-order", seeds=(None, ctx.seed))


def int_context_texts():
    """Integer literals at the limits of the 64-bit range in every kind of context (after a unary / binary
    minus on the same line, on the next line, after a comment; in parentheses, brackets, ranges): the lexer's
    decision on a literal must not depend on the tokens or the layout around it."""
    lits = ["9223372036854775807", "9223372036854775808", "9_223_372_036_854_775_808", "18446744073709551616",
            "09223372036854775807", "9223372036854775806", "0", "1_0"]
    pre = ["", "-", "- ", "-\n", "-# c\n", "x - ", "x -\n", "x -# c\n  ", "(", "-(", "x - (", "[", "[-", "9223372036854775800 .. ", "0 .. -",
           "x = -", "x := ", "x -= ", "x - -", "f(", "f(-", "x[", "x[-", "{\"k\": -", "1 -\n\n", "1 - 2 - ", "-1 -"]
    out = []
    for lt in lits:
        for pfx in pre:
            close = {"(": ")", "[": "]", "{": "}"}
            tail = "".join(close[c] for c in reversed([c for c in pfx if c in "([{"]))
            out.append("print(%s%s%s)\n" % (pfx, lt, tail) if not pfx.startswith("x") else "%s%s%s\n" % (pfx, lt, tail))
    return sorted(set(out))


def int_contexts(ctx, name, prop):
    import lexcheck as lx
    texts = int_context_texts()
    outs, st = lx.spec_lex(texts, name + "ints")
    ctx.states += st["distinct"]
    ctx.transitions += st["generated"]
    ctx.models["SeedLexRun:%sints" % name] = {"module": "SeedLexRun", "texts": len(texts),
                                              "distinct_states": st["distinct"], "states_generated": st["generated"]}
    lx.check_texts(ctx, texts, outs, name + "ints", prop)
    for t in texts:
        ctx.nontrivial.add("int:" + t)


ALL_SCALE = ["range", "objlit", "spreadlit", "chain", "strchain", "shared", "longlist", "longstr", "deep",
             "manyargs", "manyvars", "manyprops"]


def scale_family(ctx, name, families, seeds=None):
    """MC_Scale: one construct at sizes well above the other models' bounds (an interpreter can
    behave differently above a size), replayed."""
    sizes = (9, 33) if ctx.quick else (9, 21, 33, 70)
    out = ctx.run_model("MC_Scale", "SelectedParams", progof="ScaleProgOf", max_steps=200000,
                        invariants=["ScaleLaws"], name="MC_Scale_" + name, workers=16,
                        constants={"Sizes": "= {%s}" % ", ".join(str(n) for n in sizes),
                                   "Families": "= {%s}" % ", ".join('"%s"' % f for f in families)})
    cases, _ = ctx.replay(out, name + "-scale", seeds=seeds or (None, ctx.seed))
    return cases


def c07(ctx):
    ctx.rule = ("every nesting (depth 1-2%s) of {bare block, if-true, if-false/else, else-if chain, while, "
                "for over list/string/object, call} x jump in {none, break, continue, return} x position, "
                "plus loop bodies mutating the iterated container; a case is non-trivial when it contains "
                "a jump or a loop (all do); distinct = distinct parameter tuples"
                % ("" if ctx.quick else ", depth 3 sampled"))
    out = ctx.run_model("MC_C07", "C07Params" if ctx.quick else "C07ParamsThorough",
                        invariants=["EscapeWellFormed"], workers=16)
    cases_, _ = ctx.replay(out, "c07", seeds=(None,) if ctx.quick else (None, ctx.seed))
    form_fuzz(ctx, cases_, "c07")
    order_family(ctx, "c07")
    scripts = [s for s in repo_test_scripts()
               if re.search(r"\b(break|continue|return|while|for|if)\b", s[1])]
    corpus_validate(ctx, scripts, "c07tests")


def c16(ctx):
    ctx.rule = ("the full matrix: 15 binary operators x 8 x 8 value kinds (null, bool, int, string, list, object, "
                "user function, builtin) in plain form, + - * / % also in op-assign form on variable / element / "
                "property; 23 typed contexts x 8 kinds; thorough: the same inside a function. Every cell is "
                "non-trivial (each exercises one entry of the type table); distinct = distinct cells")
    out = ctx.run_model("MC_C16", "C16Params" if ctx.quick else "C16ParamsThorough", invariants=["EqNestRule", "CtxRule"], workers=16)
    ctx.notes.append("ASSUME TypeTable / TypeNamesOk (operator domain = the table of the property statement; "
                     "diagnostics name operator and both type names in order) checked by TLC at start-up")
    ctx.replay(out, "c16", seeds=(None,) if ctx.quick else (None, ctx.seed, ctx.seed + 1))
    scale_family(ctx, "c16", ["chain", "strchain"])
    scripts = [s for s in repo_test_scripts() if "runtime_errors" in s[0] or "operations" in s[0]]
    corpus_validate(ctx, scripts, "c16tests")


FRAME_PROPS = ["HeapFrame", "ScopeFrame", "OutputMonotone"]


def c11(ctx):
    ml, mc = (3, 2) if ctx.quick else (5, 3)
    ctx.rule = ("every list of length 0..%d and every string of 0..%d characters over {a, 2-byte, 3-byte} x every "
                "index / bound in [-2, len+2], omitted, and non-integer kinds, for index read, range read, the "
                "slice / split-join / concatenation laws, index assignment and range assignment (list and string "
                "right-hand sides of every length 0..len+1, non-sequence kinds); non-trivial = every case (each "
                "is one point of a law's domain or its complement); distinct = distinct parameter tuples"
                % (ml, mc))
    out = ctx.run_model("MC_C11", "C11Params", invariants=["C11Laws"], props=FRAME_PROPS,
                        constants={"MaxLen": "= %d" % ml, "MaxChars": "= %d" % mc}, workers=16)
    cases_, _ = ctx.replay(out, "c11", seeds=(None,) if ctx.quick else (None, ctx.seed))
    form_fuzz(ctx, cases_, "c11")
    scale_family(ctx, "c11", ["longlist", "longstr", "range"])
    scripts = [s for s in repo_test_scripts() if "index" in s[0] or "range" in s[0] or "concat" in s[0]]
    corpus_validate(ctx, scripts, "c11tests")


def c12(ctx):
    hl = 2 if ctx.quick else 3
    ctx.rule = ("all histories of 1..%d operations (insert / op-assign / read, through .k and [\"k\"]) over keys "
                "{a, B, b, _, \"\", \"k k\"} observed by print / for / ==; each history also run through both "
                "access paths on two objects (o == q); all 36 pairs of insertion orders of a 3-key set; 13 literal "
                "forms; non-trivial = every case; distinct = distinct parameter tuples" % hl)
    out = ctx.run_model("MC_C12", "C12Params", invariants=["C12Laws"], props=FRAME_PROPS,
                        constants={"HistLen": "= %d" % hl})
    cases_, _ = ctx.replay(out, "c12", seeds=(None,) if ctx.quick else (None, ctx.seed))
    form_fuzz(ctx, cases_, "c12")
    scale_family(ctx, "c12", ["objlit", "spreadlit", "manyprops"])
    order_family(ctx, "c12")
    scripts = [s for s in repo_test_scripts() if "object" in s[0] or "prop" in s[0]]
    corpus_validate(ctx, scripts, "c12tests")


def c10(ctx):
    ctx.rule = ("all 34 x 34 ordered pairs of pool values (atoms, lists/objects to depth 2 built by literal, "
                "concatenation, range, index assignment, insertion in both key orders, shared child, "
                "self-containing, functions) compared with == != both ways then printed; === !== on all container / "
                "function pairs; every value against its alias; operands sharing sub-structure ([a] == a ...). "
                "Spec-level laws (reflexive, symmetric, transitive over triples, copies equal, != negation, "
                "=== laws) are ASSUMEs over a 32-cell constant heap. non-trivial = every pair; distinct = "
                "distinct parameter tuples")
    out = ctx.run_model("MC_C10", "C10Params", invariants=["C10Laws"], props=FRAME_PROPS + ["CompareFrame"])
    ctx.notes.append("ASSUME EqReflexive, EqSymmetric, EqTransitive (all triples of the data pool), EqCopies, "
                     "EqErrNamesTypes, EqAtomKinds, EqFuncsError, NeIsNegation, RefLaws checked by TLC at start-up")
    cases_, _ = ctx.replay(out, "c10", seeds=(None,) if ctx.quick else (None, ctx.seed, ctx.seed + 1))
    form_fuzz(ctx, cases_, "c10")
    scale_family(ctx, "c10", ["deep", "shared", "objlit"])
    scripts = [s for s in repo_test_scripts() if "equality" in s[0]]
    corpus_validate(ctx, scripts, "c10tests")


def c05(ctx):
    hl = 2 if ctx.quick else 3
    ctx.rule = ("all histories of 1..%d operations out of 20 list operations (alias, 6 copy-builds, mutations "
                "through index / op-assign / range / parameter / closure / container / returned alias) and 12 "
                "object operations over variables a, b, c; every variable and every === pair printed after "
                "every step (histories <= 2) or at the end; plus immutability of ints / strings; non-trivial = "
                "every history; distinct = distinct parameter tuples" % hl)
    out = ctx.run_model("MC_C05", "C05Params", props=FRAME_PROPS + ["BuildFresh", "IdentityIsCell"],
                        constants={"HistLen": "= %d" % hl}, max_steps=6000)
    cases_, _ = ctx.replay(out, "c05", seeds=(None,) if ctx.quick else (None, ctx.seed))
    form_fuzz(ctx, cases_, "c05")
    scale_family(ctx, "c05", ["range", "longlist", "manyprops"])
    scripts = [s for s in repo_test_scripts() if "ref" in s[0] or "mutation" in s[0] or "concatenation" in s[0]]
    corpus_validate(ctx, scripts, "c05tests")


def rename_ast(node, mapping):
    if isinstance(node, dict):
        out = {}
        for kx, v in node.items():
            if kx == "name" and isinstance(v, list) and node.get("t") in ("var", "fn"):
                out[kx] = mapping.get(bytes(v), bytes(v))
                out[kx] = list(out[kx])
            else:
                out[kx] = rename_ast(v, mapping)
        return out
    if isinstance(node, list):
        return [rename_ast(v, mapping) for v in node]
    return node


def renaming_check(ctx, cases, name, mapping):
    """Consistently renaming declared variables never changes what is printed:
    the renamed program must print exactly what the specification predicted
    for the original (stdout and exit status; diagnostics mention the names)."""
    plain = sv.build(False)
    d = sv.scratch("rename-" + name)
    jobs = [(i, key, body, o) for i, (key, body, o) in enumerate(cases)
            if o is not None and o["status"]["k"] in ("done", "failed")]

    def one(job):
        i, key, body, o = job
        pl = rp.Placed(rename_ast(body, mapping))
        fn = "r%d.sd" % i
        with open(os.path.join(d, fn), "w", encoding="utf-8") as f:
            f.write(pl.text)
        so, se, code = sv.run_seed(plain, fn, d)
        exp_out = b"".join(bytes(x) + b"\n" for x in o["out"])
        exp_code = 0 if o["status"]["k"] == "done" else 103
        if so != exp_out or code != exp_code:
            return (key, pl.text, so, se, code, exp_out, exp_code)
        return None
    res = sv.pmap(one, jobs)
    ctx.evaluations += len(jobs)
    ctx.validated += len(jobs)
    for r in res:
        if r:
            key, text, so, se, code, eo, ec = r
            ctx.violation("a consistently renamed program prints something else (%s %s)" % (name, key),
                          script=text,
                          detail={"expected_stdout": eo.decode(errors="replace"), "expected_exit": ec,
                                  "stdout": so.decode(errors="replace"),
                                  "stderr": se.decode(errors="replace"), "exit": code})


def c04_random_seqs(seed, n):
    """Seeded well-formed token sequences of length 5..9 for MC_C04 (family `random`)."""
    import random
    rnd = random.Random(seed)
    simple = ["D", "A", "R", "Dy", "Ry", "C", "C1", "S", "Q", "D", "R", "Q", "A", "Dx", "Fr", "G", "Cg",
              "K", "B", "Sw", "So", "Q", "D", "Sr", "Qf"]
    openers = ["{", "I{", "F{", "L{", "W{", "T{", "T{", "L{", "W{", "Lx{", "Ox{", "E{"]

    def gen(budget, depth):
        out = []
        while budget > 0:
            if budget >= 3 and depth < 3 and rnd.random() < 0.35:
                inner = rnd.randrange(1, min(budget - 1, 4))
                body = gen(inner, depth + 1)
                out += [rnd.choice(openers)] + body + ["}"]
                budget -= len(body) + 2
            else:
                out.append(rnd.choice(simple))
                budget -= 1
        return out
    return [gen(rnd.randrange(5, 10), 0) for _ in range(n)]


def c04(ctx):
    tl = 4
    nrand = 400 if ctx.quick else 8000
    ctx.rule = ("every well-formed token sequence of length <= 3 over the 15-token scope alphabet (declare / assign / "
                "read x, y; block, if, for, while, fn; f()(), f(), guarded recursion; push a closure over the "
                "current scope) and of length 4..%d over a 10-token sub-alphabet; targeted families: a declaration / "
                "assignment inside every kind of construct as the first thing of every kind of context, read after "
                "it ended (vanish); closures created per iteration and per call, all called at the end of the "
                "program (fresh); %d seeded random sequences of 5-9 tokens; every fn body returns a closure that "
                "updates x after the defining scope ended; each program and its consistent renaming replayed; "
                "non-trivial = sequences with >= 2 tokens; distinct = distinct token sequences" % (tl, nrand))
    rf = os.path.join(sv.scratch("c04rand"), "seqs.ndjson")
    with open(rf, "w") as f:
        for sq in c04_random_seqs(ctx.seed, nrand):
            f.write(json.dumps({"s": sq}) + "\n")
    os.environ["SEED_C04_RANDOM"] = rf
    out = ctx.run_model("MC_C04", "C04Params", props=FRAME_PROPS + ["FreshPerEntry", "ShadowFrame"],
                        constants={"TokLen": "= %d" % tl, "Alphabet": "<- SmallToks"}, max_steps=900)
    os.environ.pop("SEED_C04_RANDOM", None)
    cases, _ = ctx.replay(out, "c04", seeds=(None,) if ctx.quick else (None, ctx.seed),
                          nontrivial=lambda k, b, o: len(json.loads(k)[1]) >= 2)
    renaming_check(ctx, cases, "c04", {b"x": b"first_var", b"y": b"y2", b"f": b"fun_c", b"d": b"depth0",
                                        b"fs": b"closures", b"g": b"each"})
    # names that begin like keywords (a word is a keyword only as a whole)
    renaming_check(ctx, cases[::3], "c04kw", {b"x": b"elsewhere", b"y": b"iffy", b"f": b"fnord", b"d": b"format",
                                                b"fs": b"inner", b"g": b"nulls", b"gg": b"truely", b"tk": b"whiles",
                                                b"tick": b"returned"})
    scale_family(ctx, "c04", ["manyvars", "deep"])
    scripts = [s for s in repo_test_scripts()
               if "scope" in s[0] or "closure" in s[0] or "functions" in s[0] or "variables" in s[0]]
    corpus_validate(ctx, scripts, "c04tests")


def c20(ctx):
    sl = 3
    ctx.rule = ("every sequence of 1..%d events out of 19 (declare through :=, list / object destructuring, fn, "
                "for target, parameter; assign; op-assign; read; over x, y, _) at top level, and with the tail "
                "inside a block / call / for / if / while; 9 non-bindable expression kinds x 9 binding positions; "
                "an independent declarative oracle (fold over the events with the declared-name set) must agree "
                "with the machine on every flat sequence; thorough: also every sequence of 4 events over 11 core "
                "events; non-trivial = every sequence; distinct = distinct parameter tuples" % sl)
    out = ctx.run_model("MC_C20", "C20Params", invariants=["C20Laws"], props=FRAME_PROPS + ["ShadowFrame"],
                        constants={"SeqLen": "= %d" % sl, "LongLen": "= %d" % (0 if ctx.quick else 4)}, workers=16)
    cases_, _ = ctx.replay(out, "c20", seeds=(None,) if ctx.quick else (None, ctx.seed))
    form_fuzz(ctx, cases_, "c20")
    scale_family(ctx, "c20", ["manyvars", "manyargs"])
    scripts = [s for s in repo_test_scripts() if "scope" in s[0] or "variables" in s[0] or "runtime_errors" in s[0]]
    corpus_validate(ctx, scripts, "c20tests")


def c13(ctx):
    mp, ms = (2, 3) if ctx.quick else (3, 4)
    ctx.rule = ("list patterns of 0..%d items over {a, b, c, _, repeated name, nested list, nested object, misplaced "
                "spread} with and without ..rest x source lists of length 0..%d (ints / nested / objects) and "
                "non-list kinds x {:=, =, for target, parameter}; object patterns of 0..%d items over 12 item forms "
                "x 7 sources x positions; round-trip laws (collect, object rest, spread = concat, fresh rest "
                "parameter) as programs that must print true; every split of <= 3 argument segments (plain / "
                "spread of 0..2) against arity 0..3 with / without ..rest, called written-out and spread; "
                "non-trivial = every case; distinct = distinct parameter tuples" % (mp, ms, mp))
    out = ctx.run_model("MC_C13", "C13Params", invariants=["C13Laws"], props=FRAME_PROPS + ["BuildFresh"],
                        constants={"MaxPat": "= %d" % mp, "MaxSrc": "= %d" % ms}, workers=16)
    cases_, _ = ctx.replay(out, "c13", seeds=(None,) if ctx.quick else (None, ctx.seed))
    form_fuzz(ctx, cases_, "c13")
    scale_family(ctx, "c13", ["longlist", "manyargs", "spreadlit"])
    planted_errors(ctx, cases_[:: max(1, len(cases_) // 150)], "c13", (None, ctx.seed), plants=SPREAD_PLANTS)
    order_family(ctx, "c13")
    scripts = [s for s in repo_test_scripts()
               if "destruct" in s[0] or "spread" in s[0] or "collect" in s[0] or "params" in s[0]]
    corpus_validate(ctx, scripts, "c13tests")


def c14(ctx):
    ctx.rule = ("3 ways to define the function x 7 read paths (o1.f, o1[\"f\"], o2.f, o2[\"f\"], o3.inner.f, "
                "o3[\"inner\"][\"f\"], never through an object) x 11 moves (direct, variable, two variables, "
                "argument, list element, return, re-store in a new object, destructuring, for, spread, "
                "re-assignment), plus 4 carriers x 7 reads x 11 moves; lexical this / no this / operator drops "
                "provenance / builtin through object / type function in a variable; 9 argument shapes x arity "
                "0..3 x with/without ..rest with traced evaluation order; parameter freshness programs; the "
                "independent rule ExpectedTag must agree with the machine; non-trivial = every case")
    out = ctx.run_model("MC_C14", "C14Params", invariants=["C14Laws"],
                        props=FRAME_PROPS + ["BuildFresh", "FreshPerEntry"])
    cases_, _ = ctx.replay(out, "c14", seeds=(None, ctx.seed) if ctx.quick else (None, ctx.seed, ctx.seed + 1, ctx.seed + 2))
    form_fuzz(ctx, cases_, "c14", n=600 if ctx.quick else 6000)
    scale_family(ctx, "c14", ["manyargs", "manyvars"])
    order_family(ctx, "c14")
    scripts = [s for s in repo_test_scripts() if "this" in s[0] or "function" in s[0] or "args" in s[0]]
    corpus_validate(ctx, scripts, "c14tests")


def c17(ctx):
    md = 2 if ctx.quick else 4
    ctx.rule = ("39 failing expressions (every expression-level error kind) x 22 hosting positions (statement, "
                "declaration / assignment / op-assignment right-hand side, index target, if / else-if / while "
                "condition, for iterable, return expression, argument, callee, index, range bound, list item, "
                "spread, object key / value, interpolation slot, operand, receiver, print argument) at depth 0-1; "
                "x 5 hosts x 5 wrappers (named chain, anonymous function in a variable, method, inside a loop, "
                "inside a bare block) x call depth 0..%d x 0..2 completed prints; 38 failing statements x wrappers "
                "x depths; every stderr byte-exact against SeedDiag, plus a specification-independent form check; "
                "non-trivial = every case (all fail); distinct = distinct parameter tuples" % md)
    out = ctx.run_model("MC_C17", "C17Params", invariants=["C17Laws"], props=["OutputMonotone"],
                        constants={"MaxDepth": "= %d" % md}, workers=16)
    ctx.replay(out, "c17", seeds=(None,) if ctx.quick else (None, ctx.seed))
    scale_family(ctx, "c17", ["deep", "chain", "strchain", "manyargs"])
    order_family(ctx, "c17")
    scripts = [s for s in repo_test_scripts() if "error" in s[0] or "stacktrace" in s[0]]
    corpus_validate(ctx, scripts, "c17tests")


def c01(ctx):
    ctx.rule = ("feature composition: 12 outer constructs x %s inner constructs x 23 payloads over a shared "
                "environment (int, list, object with a method, non-ASCII string, counter closure), environment "
                "printed at the end%s; the repository's 336 test scripts, the documentation examples and %d seeded "
                "random programs (up to 30-40 statements, depth 4-5) executed in the specification on the real "
                "parser's tree and compared with the real run; non-trivial = every program (each composes at "
                "least two constructs); distinct = distinct parameter tuples / script texts"
                % ("6" if ctx.quick else "11", "" if ctx.quick else "; depth 3; pairs of payloads in one construct",
                   300 if ctx.quick else 1500))
    out = ctx.run_model("MC_C01", "C01ParamsQuick" if ctx.quick else "C01ParamsThorough",
                        invariants=["EscapeWellFormed"],
                        props=FRAME_PROPS + ["BuildFresh", "FreshPerEntry", "ShadowFrame"], max_steps=4000)
    cases_, _ = ctx.replay(out, "c01", seeds=(None, ctx.seed) if ctx.quick else (None, ctx.seed, ctx.seed + 1))
    form_fuzz(ctx, cases_, "c01", n=500 if ctx.quick else 5000)
    scale_family(ctx, "c01", ALL_SCALE)
    corpus_validate(ctx, repo_test_scripts(), "c01tests")
    corpus_validate(ctx, doc_examples(), "c01docs")
    corpus_validate(ctx, random_scripts(ctx.seed, 300 if ctx.quick else 1500,
                                        max_stmts=30 if ctx.quick else 35), "c01random")


BOUNDARY_PROGRAMS = [
    # (source, expected stdout or None = a reported error, exit 103): values at the limits of the 64-bit range
    # and text that is not ASCII at places where the evaluator slices or counts
    ("print(9223372036854775807 .. -9223372036854775807)\n", "[\n]\n"),
    ("print(9223372036854775807 .. (-9223372036854775807 - 1))\n", "[\n]\n"),
    ("print(9223372036854775807 .. -2)\n", "[\n]\n"),
    ("print(0 .. (-9223372036854775807 - 1))\n", "[\n]\n"),
    ("print(9223372036854775806 .. 9223372036854775807)\n", "[\n    9223372036854775806,\n]\n"),
    ("print((-9223372036854775807 - 1) .. -9223372036854775807)\n", "[\n    -9223372036854775808,\n]\n"),
    ("print(9223372036854775807 .. 9223372036854775807)\n", "[\n]\n"),
    ("for [i, v] in 9223372036854775805 .. 9223372036854775807 { print([i, v]); }\n",
     "[\n    0,\n    9223372036854775805,\n]\n[\n    1,\n    9223372036854775806,\n]\n"),
    ("xs := [1, 2]\nprint(xs[9223372036854775807])\n", None),
    ("xs := [1, 2]\nprint(xs[-9223372036854775807 - 1])\n", None),
    ("xs := [1, 2]\nprint(xs[1:9223372036854775807])\n", None),
    ("xs := [1, 2]\nprint(xs[9223372036854775807:])\n", None),
    ("xs := [1, 2]\nxs[9223372036854775807] = 1\n", None),
    ("xs := [1, 2]\nxs[0:9223372036854775807] = [1]\n", None),
    ("s := \"h\u00e9\"\nprint(s[9223372036854775807:])\n", None),
    ("prix := \"a\"\nprint($\"total: ${prix\u20ac}\")\n", None),
    ("print($\"${12\u00e9}\")\n", None),
    ("print($\"${\u00e9}\")\n", None),
    ("na\u00efve := 1\n", None),
    ("x := 1\nprint($\"${x\u00a0+ 1}\")\n", None),
    ("print($\"\u00e9\u20ac${\"\u00e9\" + \"\u20ac\"}\u00e9\")\n", "\u00e9\u20ac\u00e9\u20ac\u00e9\n"),
    ("print($\"${\"5\u20ac\" + \" / \" + \"\u20ac5\"}\")\n", "5\u20ac / \u20ac5\n"),
    ("print((\"\u00e9\"[0:1] + \"\u00e9\"[1:2]) == \"\u00e9\")\n", "true\n"),
    ("print(\"a\u00e9\"[2:])\n", None),
    ("fn area(side) { return $\"area: ${side * 3\u00b2}\"; }\nprint(area(2))\n", None),
    ("print($\"${1\u00bd}\")\n", None),
    ("o := {\"len\": \"h\u00e9llo\"->len}\nprint(o.len())\n", None),
    ("o := {\"type\": [1]->type}\nprint(o[\"type\"]())\n", "object\n"),
    ("f := \"h\u00e9\"->len\nprint(f())\n", "3\n"),
    ("print(\"na\u00efve\"[:3]->len())\n", None),
    ("print($\"${18446744073709551616}\")\n", None),
    ("print($\"${18446744073709551619 + 1}\")\n", None),
    ("s := \"h\u00e9llo w\u00f6rld\"\nprint(s[9:2])\n", None),
    ("s := \"h\u00e9llo\"\nprint(s[3:3] + \"|\")\nprint(s[4:1])\n", None),
    ("xs := [1, 2, 3]\nprint(xs[2:1])\n", None),
]


def boundary_programs(ctx, name):
    """Programs at the limits (64-bit extremes in ranges / indices, non-ASCII text inside slots) on the real
    interpreter: never a crash; the stated output, or a reported error."""
    plain = sv.build(False)
    d = sv.scratch("boundary-" + name)
    for i, (src, want) in enumerate(BOUNDARY_PROGRAMS):
        fn = "b%d.sd" % i
        open(os.path.join(d, fn), "w", encoding="utf-8").write(src)
        so, se, code = sv.run_seed(plain, fn, d)
        ctx.evaluations += 1
        ctx.validated += 1
        ctx.nontrivial.add("boundary:" + src)
        cr = sv.crashed(se, code)
        if cr:
            ctx.violation("the interpreter crashed (%s) on a boundary program" % cr, script=src,
                          detail={"stderr": se.decode(errors="replace")[-1500:], "exit": code}, prop="C02")
        elif want is None:
            form = sv.stderr_form(se, fn, code)
            if code != 103 or form:
                ctx.violation("a boundary program that must be refused was not refused with one diagnostic",
                              script=src, detail={"stdout": so.decode(errors="replace"),
                                                  "stderr": se.decode(errors="replace"), "exit": code, "form": form})
        elif code != 0 or so.decode("utf-8", errors="replace") != want:
            ctx.violation("a boundary program does not print what it must", script=src,
                          detail={"expected": want, "stdout": so.decode(errors="replace"),
                                  "stderr": se.decode(errors="replace"), "exit": code})


def c02(ctx):
    nm = 3 if ctx.quick else 10
    ctx.rule = ("12 alias shapes (same container twice, self-containing, inside its comparand, mutual, shared child, "
                "two self-containing, deep self, object self / mixed / same, nested) x 24 hazard operations x 3 "
                "operand orders; / and %% with zero divisor and zero dividend in plain and three op-assign forms; "
                "every one replayed (predicted outcome) and checked by the specification-independent crash oracle "
                "(exit 101, signal, panic text); plus %d token-level mutants per repository test script that still "
                "parse, and seeded random programs, under the crash oracle and, when inside the model, validated "
                "against the specification; non-trivial = alias / zero cases and mutants that reach evaluation"
                % nm)
    out = ctx.run_model("MC_C02", "C02Params", invariants=["ZeroRule"], props=FRAME_PROPS + ["BuildFresh"])
    ctx.replay(out, "c02", seeds=(None,) if ctx.quick else (None, ctx.seed))
    scale_family(ctx, "c02", ALL_SCALE, seeds=(None,))
    boundary_programs(ctx, "c02")
    ms = mutants(repo_test_scripts(), ctx.seed, nm)
    corpus_validate(ctx, ms, "c02mutants")
    corpus_validate(ctx, random_scripts(ctx.seed + 17, 200 if ctx.quick else 1500, err_rate=0.06), "c02random")
    ctx.notes.append("extreme 64-bit integers: see C06; non-ASCII text in literals: see C15")


ENV_CONFIGS = ["base", "subdir", "absolute", "dotslash", "dotdot", "envfull", "envempty", "stdinfile",
               "stdinpipe", "stdoutfile", "junkfiles"]


def env_matrix(ctx, cases, name, per_case):
    """Every program is run under several configurations (working directory, spelling
    of the script path, environment, stdin, stdout, neighbouring files), each a
    separate process (so a separate hash seed); every run must be byte-identical to
    the specification's single prediction (the path is echoed as given)."""
    import random
    import subprocess
    plain = sv.build(False)
    root = sv.scratch("env-" + name)
    rnd = random.Random(ctx.seed)
    jobs = []
    for i, (key, body, outcome) in enumerate(cases):
        if outcome is None or outcome["status"]["k"] not in ("done", "failed"):
            continue
        cfgs = ENV_CONFIGS if per_case >= len(ENV_CONFIGS) else rnd.sample(ENV_CONFIGS, per_case)
        jobs.append((i, key, body, outcome, cfgs))

    def one(job):
        i, key, body, outcome, cfgs = job
        pl = rp.Placed(body)
        d = os.path.join(root, "c%d" % i)
        os.makedirs(os.path.join(d, "sub"), exist_ok=True)
        with open(os.path.join(d, "p.sd"), "w", encoding="utf-8") as f:
            f.write(pl.text)
        bad = []
        for cfg in cfgs:
            cwd, path = d, "p.sd"
            env = {"PATH": "/usr/bin:/bin"}
            stdin = subprocess.DEVNULL
            to_file = False
            if cfg == "subdir":
                cwd, path = os.path.join(d, "sub"), "../p.sd"
            elif cfg == "absolute":
                cwd, path = "/", os.path.join(d, "p.sd")
            elif cfg == "dotslash":
                path = "./p.sd"
            elif cfg == "dotdot":
                path = "sub/../p.sd"
            elif cfg == "envfull":
                env = {"PATH": "/usr/bin:/bin", "LANG": "de_DE.UTF-8", "LC_ALL": "tr_TR.UTF-8",
                       "LC_NUMERIC": "fr_FR", "RUST_BACKTRACE": "full", "HOME": "/nonexistent",
                       "TZ": "Pacific/Kiritimati", "SEED_X": "1", "COLUMNS": "10", "NO_COLOR": "1",
                       "RUST_LOG": "trace", "TERM": "dumb"}
            elif cfg == "envempty":
                env = {}
            elif cfg == "stdinfile":
                stdin = open(os.path.join(d, "p.sd"), "rb")
            elif cfg == "stdinpipe":
                stdin = subprocess.PIPE
            elif cfg == "junkfiles":
                for n in ("print", "p.sd.bak", "p", "seed.toml", ".seedrc"):
                    open(os.path.join(d, n), "w").write("x := 1\nprint(x)\n")
            exp = sv.expected(outcome, path, pl.loc)
            try:
                if cfg == "stdoutfile":
                    with open(os.path.join(d, "out.txt"), "wb") as of:
                        p = subprocess.run([plain, path], cwd=cwd, env=env, stdin=stdin, stdout=of,
                                           stderr=subprocess.PIPE, timeout=20)
                    so = open(os.path.join(d, "out.txt"), "rb").read()
                else:
                    if stdin == subprocess.PIPE:
                        p = subprocess.run([plain, path], cwd=cwd, env=env, input=b"junk\n",
                                           stdout=subprocess.PIPE, stderr=subprocess.PIPE, timeout=20)
                    else:
                        p = subprocess.run([plain, path], cwd=cwd, env=env, stdin=stdin,
                                           stdout=subprocess.PIPE, stderr=subprocess.PIPE, timeout=20)
                    so = p.stdout
                se, code = p.stderr, p.returncode
            except subprocess.TimeoutExpired:
                so, se, code = b"", b"", None
            finally:
                if hasattr(stdin, "close"):
                    stdin.close()
            if not sv.matches(exp, so, se, code):
                bad.append((cfg, pl.text, sv.show_exp(exp),
                            {"stdout": so.decode(errors="replace"), "stderr": se.decode(errors="replace"),
                             "exit": code}))
        return key, len(cfgs), bad
    res = sv.pmap(one, jobs)
    for key, n, bad in res:
        ctx.evaluations += n
        ctx.validated += n
        ctx.nontrivial.add(name + ":" + key)
        for cfg, text, exp, act in bad:
            ctx.violation("run under configuration `%s` differs from the specification's prediction (%s %s)"
                          % (cfg, name, key), script=text, detail={"config": cfg, "expected": exp, "actual": act})


def c19(ctx):
    per = 3 if ctx.quick else len(ENV_CONFIGS)
    ctx.rule = ("11 pairs of construction histories of equal values (literal / concatenation / range / element-wise "
                "assignment / key orders / insertion / spread / shared vs copied child / alias / nested with "
                "multi-line strings / depth 4) printed and compared; atoms, functions, empty containers, key "
                "ordering; RenderShape (independent line-oriented formulation = Render) as an ASSUME over a pool "
                "to depth 4; determinism = maximal out-degree 1 of every explored state graph; these programs and "
                "the programs of the C12 / C13 models each run under %d of 11 configurations (cwd, path spelling, "
                "environment, stdin, stdout, neighbouring files; separate processes = separate hash seeds); "
                "non-trivial = every (program, configuration) run; distinct = distinct programs" % per)
    out = ctx.run_model("MC_C19", "C19Params", invariants=["C19Laws"], props=["HeapFrame", "OutputMonotone"])
    for l in out:
        m = re.search(r"the maximum (\d+) and", l)
        if m and int(m.group(1)) > 1:
            raise sv.ToolError("the machine is not deterministic: out-degree %s" % m.group(1))
    ctx.notes.append("ASSUME RenderShape checked by TLC at start-up; maximal out-degree of the state graph = 1")
    cases, _ = ctx.replay(out, "c19", seeds=(None, ctx.seed))
    env_matrix(ctx, cases, "c19", len(ENV_CONFIGS))
    out12 = ctx.run_model("MC_C12", "C12Params", invariants=["C12Laws"], constants={"HistLen": "= 1"}, name="MC_C12h1")
    env_matrix(ctx, rp.join_runs(out12), "c19-c12", per)
    out13 = ctx.run_model("MC_C13", "C13Params", invariants=["C13Laws"],
                          constants={"MaxPat": "= %d" % (1 if ctx.quick else 2), "MaxSrc": "= 2"}, name="MC_C13s")
    env_matrix(ctx, rp.join_runs(out13), "c19-c13", per)
    if not ctx.quick:
        out17 = ctx.run_model("MC_C17", "C17Params", invariants=["C17Laws"], constants={"MaxDepth": "= 1"},
                              name="MC_C17d1")
        env_matrix(ctx, rp.join_runs(out17), "c19-c17", 4)
    # big values (one container at several depths) and printing a value while a construct is working on it
    sc = scale_family(ctx, "c19", ["shared", "objlit", "spreadlit", "longlist", "longstr", "deep", "manyprops"])
    env_matrix(ctx, sc, "c19-scale", 2)
    outp = ctx.run_model("MC_C02", "C02PrintParams", props=FRAME_PROPS, name="MC_C02print")
    ctx.replay(outp, "c19-printduring", seeds=(None, ctx.seed))
    scripts = [s for s in repo_test_scripts() if "print" in s[0] or "values" in s[0]]
    corpus_validate(ctx, scripts, "c19tests")


def run_mc_lex(ctx, maxlen, alphabet, name, wraps="NoWrap", extra_inv=()):
    cfg = os.path.join(sv.scratch("cfg", clean=False), name + ".cfg")
    open(cfg, "w").write("INIT MCLexInit\nNEXT MCLexNext\nCONSTANTS\n  MaxLen = %d\n  Alphabet <- %s\n"
                         "  Wraps <- %s\nINVARIANTS\n  LexInv\n  EmitLex\n%sPROPERTIES\n  Progress\n"
                         "CHECK_DEADLOCK TRUE\n"
                         % (maxlen, alphabet, wraps, "".join("  %s\n" % i for i in extra_inv)))
    rc, out = sv.tlc("MC_Lex", cfg=cfg, timeout=3000, metaname=name)
    if not sv.tlc_ok(rc, out):
        raise sv.ToolError("TLC on MC_Lex (%s) failed:\n%s" % (name, sv.tlc_error_text(out)))
    st = sv.tlc_stats(out)
    ctx.states += st["distinct"]
    ctx.transitions += st["generated"]
    ctx.models[name] = {"module": "MC_Lex", "MaxLen": maxlen, "alphabet": alphabet,
                        "distinct_states": st["distinct"], "states_generated": st["generated"],
                        "invariants": ["PosInv", "InBounds", "LineBound", "OneError", "TokensOrdered",
                                       "StmtEndRule", "SlotsWellFormed"] + list(extra_inv),
                        "properties": ["Progress"]}
    return sv.tagged(out, "LEX")


def big_texts(ctx):
    """Long runs of what the scanner skips or accumulates (blank lines, `;`, comment lines, continuation breaks,
    one very long token): the front end works in a loop, not by recursion per item.  The tokens are known by
    construction, so the outcome is: both prints run, in order."""
    plain = sv.build(False)
    d = sv.scratch("c03big")
    n = 20000 if ctx.quick else 200000
    name = "v" * 5000
    cases = [("blank lines", "print(1)\n" + "\n" * n + "print(2)\n"),
             ("blank lines crlf", "print(1)\r\n" + "\r\n" * n + "print(2)\r\n"),
             ("semicolons", "print(1)" + ";" * n + "print(2)\n"),
             ("comment lines", "print(1)\n" + "# c \u00e9\n" * n + "print(2)\n"),
             ("spaces", "print(1)\n" + " " * n + "print(2)\n"),
             ("breaks after an operator", "x := 1 +" + "\n" * n + "1\nprint(1)\nprint(x)\n"),
             ("breaks after a bracket", "print(" + "\n" * n + "1)\nprint(2)\n"),
             ("long identifier", "%s := 1\nprint(%s)\nprint(2)\n" % (name, name)),
             ("long string", "s := \"%s\"\nprint(1)\nprint(s->len() - %d)\n" % ("a\u00e9" * 20000, 60000 - 2)),
             ("long comment", "print(1) # " + "c" * n + "\nprint(2)\n"),
             ("many statements", "print(1)\n" + "x := 1;" * 1 + "{ y := 1; }\n" * 3000 + "print(2)\n"),
             ("long list literal", "xs := [" + "1, " * 5000 + "1]\nprint(1)\nprint(xs[5000] + 1)\n")]
    for i, (what, text) in enumerate(cases):
        fn = "g%d.sd" % i
        open(os.path.join(d, fn), "w", encoding="utf-8").write(text)
        so, se, code = sv.run_seed(plain, fn, d, timeout=60)
        ctx.evaluations += 1
        ctx.validated += 1
        ctx.nontrivial.add("big:" + what)
        cr = sv.crashed(se, code)
        if cr:
            ctx.violation("the front end crashed (%s) on a long run of %s" % (cr, what), script=text[:300] + " ...",
                          detail={"stderr": se.decode(errors="replace")[-800:], "exit": code, "length": len(text)},
                          prop="C03")
        elif code != 0 or so != b"1\n2\n":
            ctx.violation("a text with a long run of %s is not run as written" % what, script=text[:300] + " ...",
                          detail={"stdout": so.decode(errors="replace")[:200], "stderr": se.decode(errors="replace")[:400],
                                  "exit": code}, prop="C03")


def c03(ctx):
    import lexcheck as lx
    ml = 3 if ctx.quick else 4
    ctx.rule = ("all strings of length <= %d over a 28-character alphabet that reaches every lexer branch (letter, "
                "digit, _, space, tab, CR, LF, ; # \" $ \\ { } x n + - = ! | & . > < :, a 2-byte and a 4-byte "
                "character): SeedLex run by TLC with position / bounds / progress / single-error invariants, the "
                "real token stream must equal the specification's, and the CLI must follow the front-end protocol; "
                "plus every truncation of the repository's test scripts, seeded byte- and token-level mutants and "
                "non-UTF-8 inputs; non-trivial = strings with at least one token or error; distinct = distinct texts"
                % ml)
    specs = run_mc_lex(ctx, ml, "BaseAlphabet", "MC_Lex_base%d" % ml)
    # characters that are none of the lexer's classes but close to one (NUL, VT, DEL, NBSP, non-ASCII
    # digits and letters, a line separator), among one character of every class
    specs += run_mc_lex(ctx, ml, "EdgeAlphabet", "MC_Lex_edge%d" % ml)
    texts = [lx.text_of(o["src"]) for o in specs]
    lx.check_texts(ctx, texts, specs, "c03", "C03")
    for o in specs:
        if o["toks"] or o["err"]["k"] != "none":
            ctx.nontrivial.add(json.dumps(o["src"]))
    for o in specs[:: max(1, len(specs) // 3)][:3]:
        ctx.sample({"text": lx.text_of(o["src"]), "tokens": [t["k"] for t in o["toks"]], "error": o["err"]})
    # corpora: truncations and mutants of real programs, through SeedLexRun
    import random
    rnd = random.Random(ctx.seed)
    scripts = repo_test_scripts()
    corpus = []
    for label, text in scripts[:: (6 if ctx.quick else 1)]:
        for cut in range(0, len(text) + 1, 1 if not ctx.quick else max(1, len(text) // 12)):
            corpus.append(text[:cut])
    for label, text in mutants(scripts, ctx.seed, 2 if ctx.quick else 20):
        corpus.append(text)
    for label, text in scripts[:: (3 if ctx.quick else 1)]:
        if text:
            bs = bytearray(text.encode())
            for _ in range(2):
                bs[rnd.randrange(len(bs))] = rnd.choice(b"\"$\\{}#;\n x\t=!&|.<>:-+*/%()[],0_")
            try:
                corpus.append(bs.decode("utf-8"))
            except UnicodeDecodeError:
                pass
    # an offending token that is a long literal with multi-byte text (the message quotes the token)
    longlit = "Siobh\u00e1n \u00d3 Faol\u00e1in agus M\u00e1ire N\u00ed Chathasaigh " + "\u00e9\u20ac" * 12
    for k in range(0, 6):
        corpus.append("xs := [1 \"%s%s\"]\n" % ("a" * k, longlit))
        corpus.append("print(1)\nx := 2 $\"%s%s${x}\"\n" % ("b" * k, longlit))
        corpus.append("if \"%s%s\" \"%s\" { }\n" % ("c" * k, longlit, longlit))
    corpus = sorted(set(corpus))
    outs, st = lx.spec_lex(corpus, "c03corpus")
    ctx.states += st["distinct"]
    ctx.transitions += st["generated"]
    ctx.models["SeedLexRun:c03corpus"] = {"module": "SeedLexRun", "texts": len(corpus),
                                          "distinct_states": st["distinct"], "states_generated": st["generated"]}
    lx.check_texts(ctx, corpus, outs, "c03corpus", "C03")
    for t in corpus:
        ctx.nontrivial.add(t)
    int_contexts(ctx, "c03", "C03")
    big_texts(ctx)
    # non-UTF-8 content and an empty file: read error / success, never a crash
    plain = sv.build(False)
    d = sv.scratch("c03bytes")
    blobs = [b"", b"\xff", b"print(1)\n\xc3", b"\xc3\x28", b"x := \"\xed\xa0\x80\"\n", b"\x00", b"print(1)\n\x00\n",
             b"\xef\xbb\xbfprint(1)\n", b"\xf4\x90\x80\x80"]
    for i, b in enumerate(blobs):
        fn = "b%d.sd" % i
        open(os.path.join(d, fn), "wb").write(b)
        so, se, code = sv.run_seed(plain, fn, d)
        ctx.evaluations += 1
        try:
            b.decode("utf-8")
            valid = True
        except UnicodeDecodeError:
            valid = False
        cr = sv.crashed(se, code)
        if cr:
            ctx.violation("the front end crashed (%s) on bytes %r" % (cr, b), script=repr(b), prop="C03")
        elif not valid and not (code == 103 and so == b"" and se.count(b"\n") == 1
                                and b"couldn't read script" in se):
            ctx.violation("non-UTF-8 input %r is not rejected with one read error" % b, script=repr(b),
                          detail={"stdout": so.decode(errors="replace"), "stderr": se.decode(errors="replace"),
                                  "exit": code}, prop="C03")


def c09(ctx):
    import lexcheck as lx
    nseeds = 3 if ctx.quick else 8
    ctx.rule = ("token pairs: 40 tokens (all 25 continuation tokens + one of every other class) x 12 separators "
                "(nothing, space, tab, CR, LF, comment, `;`, blank line, CR LF, ` ; `, `;` LF, comment-only lines) "
                "x 40 tokens; token triples over %s first tokens x 5 separators x 8 x 5 x 3: the lexer machine "
                "must yield exactly the written tokens with a statement end exactly where the rule of the property "
                "says (LayoutRule), and the real token stream must equal the machine's; end to end: the programs "
                "of the C01 (composition) and C17 (failures) models rendered under %d seeded layouts (terminator "
                "choice, continuation breaks, inter-token whitespace, comments with multi-byte text, blank lines, "
                "`_` in integers, \\xHH escapes, redundant parentheses) must print the same and fail with the "
                "same message at the position the renderer recorded; non-trivial = every case"
                % ("14" if ctx.quick else "40", nseeds))
    cfg = os.path.join(sv.scratch("cfg", clean=False), "MC_Layout.cfg")
    open(cfg, "w").write("INIT LInit\nNEXT LNext\nCONSTANTS\n  Firsts <- AllToks\n  TripleFirsts <- %s\n"
                         "  Seconds <- SecondsQuick\n  Thirds <- ThirdsQuick\n  Seps <- SepsAll\n"
                         "INVARIANTS\n  LexInv\n  LayoutRule\n  NeverFails\n  EmitCase\nCHECK_DEADLOCK TRUE\n"
                         % ("FirstsQuick" if ctx.quick else "AllToks"))
    rc, out = sv.tlc("MC_Layout", cfg=cfg, timeout=3000)
    if not sv.tlc_ok(rc, out):
        raise sv.ToolError("TLC on MC_Layout failed:\n" + sv.tlc_error_text(out))
    st = sv.tlc_stats(out)
    ctx.states += st["distinct"]
    ctx.transitions += st["generated"]
    ctx.models["MC_Layout"] = {"module": "MC_Layout", "distinct_states": st["distinct"],
                               "states_generated": st["generated"],
                               "invariants": ["LexInv", "LayoutRule", "NeverFails"]}
    specs = sv.tagged(out, "LEX")
    texts = [lx.text_of(o["src"]) for o in specs]
    lx.check_texts(ctx, texts, specs, "c09", "C09")
    for t in texts:
        ctx.nontrivial.add("layout:" + t)
    for o in specs[:: max(1, len(specs) // 3)][:3]:
        ctx.sample({"text": lx.text_of(o["src"]), "tokens": [t["k"] for t in o["toks"]]})
    # the lexer's decision on a literal does not depend on the line layout around it
    int_contexts(ctx, "c09", "C09")
    # the last line needs no line break: a final comment, token, blank or carriage return ends the text
    bodies = ["print(1)", "print(1) # c", "print(1)\n# c", "print(1)\n#", "# only", "#", "print(1);", "print(1) ;# \u00e9",
              "print(1)\r", "print(1) \t", "x := 1 +\n1", "print($\"${1 # c\n}\")", "print($\"${\"a\" # c}\")", "{\n}", "print(\n1\n)"]
    etexts = sorted(set(bodies + [b + "\n" for b in bodies] + [b + "\r\n" for b in bodies]))
    eouts, est = lx.spec_lex(etexts, "c09eof")
    ctx.states += est["distinct"]
    ctx.transitions += est["generated"]
    ctx.models["SeedLexRun:c09eof"] = {"module": "SeedLexRun", "texts": len(etexts),
                                       "distinct_states": est["distinct"], "states_generated": est["generated"]}
    lx.check_texts(ctx, etexts, eouts, "c09eof", "C09")
    for t in etexts:
        ctx.nontrivial.add("eof:" + t)
    opts = {"hex_prob": 0.3, "underscore_prob": 0.5, "extra_parens": 0.15, "wild": 0.5}
    seeds = tuple(ctx.seed * 100 + i for i in range(nseeds))
    out1 = ctx.run_model("MC_C01", "C01ParamsTiny" if ctx.quick else "C01Params", max_steps=4000)
    ctx.replay(out1, "c09-c01", seeds=seeds, render_opts=opts)
    out17 = ctx.run_model("MC_C17", "C17Params", invariants=["C17Laws"],
                          constants={"MaxDepth": "= %d" % (0 if ctx.quick else 2)}, name="MC_C17lay")
    ctx.replay(out17, "c09-c17", seeds=seeds[: (2 if ctx.quick else 4)], render_opts=opts)


def c15(ctx):
    import lexcheck as lx
    ml = 3 if ctx.quick else 4
    ms = 2 if ctx.quick else 2
    ctx.rule = ("all literal bodies of length <= %d over {\" $ \\ { } x n r a 4 A, a 2-, 3- and 4-byte character, "
                "newline} inside p(\"...\") and p($\"...\"): SeedLex's string modes under TLC with DecodeExact / "
                "DecodeDomain (an independent reading of the escape rules) and SlotsWellFormed, real token stream "
                "(decoded text, slot offsets, error kind / position / character) = specification; interpolation: 7 "
                "literal pieces x 10 slot expressions (variable, concatenation, call, object-literal read, nested "
                "literal, nested interpolated literal, index; int / list / null) x up to %d slots, each compared "
                "with the explicit concatenation, ->len() printed; byte laws on 6 strings; non-trivial = every case"
                % (ml, ms))
    # every two-character tail of a hex escape over digits, letters in and out of range, signs, blank, quote,
    # characters whose code point ends in a hex digit's byte: two hex digits, nothing else
    tails = ["0", "9", "a", "f", "A", "F", "g", "G", "+", "-", " ", "x", "\u00e9", "\u0141", "\u0131", "\u0661", "_", "\""]
    htexts = sorted({"%s(%s\"%s\\x%s%s%s\")\n" % ("p", d, pre, c1, c2, post)
                     for c1 in tails for c2 in tails for d in ("", "$") for pre, post in (("", ""), ("\u00e9", "z"))})
    houts, hst = lx.spec_lex(htexts, "c15hex")
    ctx.states += hst["distinct"]
    ctx.transitions += hst["generated"]
    ctx.models["SeedLexRun:c15hex"] = {"module": "SeedLexRun", "texts": len(htexts),
                                       "distinct_states": hst["distinct"], "states_generated": hst["generated"]}
    lx.check_texts(ctx, htexts, houts, "c15hex", "C15")
    for t in htexts:
        ctx.nontrivial.add("hex:" + t)
    specs = run_mc_lex(ctx, ml, "StrAlphabet", "MC_Lex_str%d" % ml, wraps="StrWraps",
                       extra_inv=("DecodeExact", "DecodeDomain"))
    texts = [lx.text_of(o["src"]) for o in specs]
    lx.check_texts(ctx, texts, specs, "c15lex", "C15")
    for t in texts:
        ctx.nontrivial.add("lit:" + t)
    for o in specs[:: max(1, len(specs) // 2)][:2]:
        ctx.sample({"text": lx.text_of(o["src"]), "tokens": [[t["k"], lx.text_of(t["text"]), t["slots"]] for t in o["toks"]],
                    "error": o["err"]})
    out = ctx.run_model("MC_C15", "C15Params", invariants=["C15Laws"], props=["HeapFrame", "OutputMonotone"],
                        constants={"MaxSlots": "= %d" % ms}, workers=16)
    cases_, _ = ctx.replay(out, "c15", seeds=(None, ctx.seed) if ctx.quick else (None, ctx.seed, ctx.seed + 1),
                           render_opts={"hex_prob": 0.3})
    form_fuzz(ctx, cases_, "c15")
    order_family(ctx, "c15")
    scripts = [s for s in repo_test_scripts() if "string" in s[0] or "interp" in s[0] or "escape" in s[0]]
    corpus_validate(ctx, scripts, "c15tests")


PLANTS = [
    # (token text, kind, column offset of the reported position, expected message prefix)
    (")", "sym", 0, "unexpected ')'"),
    ("]", "sym", 0, "unexpected ']'"),
    (",", "sym", 0, "unexpected ','"),
    ("else", "word", 0, "unexpected '`else`'"),
    ("in", "word", 0, "unexpected '`in`'"),
    ("==", "sym", 0, "unexpected '=='"),
    ("@", "sym", 0, "unexpected '@'"),
    ("é", "sym", 0, "unexpected 'é'"),
    ("&", "sym", 0, "unexpected '&'"),
    ('"a\\q"', "str", 3, "'q' is not a valid escape character"),
    ('"é\\xg1"', "str", 4, "'g' is not a valid hex character"),
    ('"€$"', "str", 2, "'$' must be escaped"),
    ('$"ab$c"', "str", 5, "interpolation slots start with '{', got 'c'"),
    ("99999999999999999999", "int", 0, "'99999999999999999999' is too high for an int"),
    ("9_223_372_036_854_775_808", "int", 0, "'9_223_372_036_854_775_808' is too high for an int"),
    ('"\\x+4"', "str", 3, "'+' is not a valid hex character"),
    ('"\\x4-"', "str", 4, "'-' is not a valid hex character"),
    ("3²", "int", 1, "unexpected '²'"),
    ("caf\u00e9", "word", 3, "unexpected 'é'"),
    ("12\u20ac", "int", 2, "unexpected '€'"),
    ('1 "Siobh\u00e1n \u00d3 Faol\u00e1in agus M\u00e1ire N\u00ed Chathasaigh \u00e1\u00e9\u00ed\u00f3\u00fa \u20ac\u20ac\u20ac\u20ac\u20ac\u20ac\u20ac\u20ac"', "int", 2,
     "unexpected '\"Siobh\u00e1n"),
    ('x $"\u00e9\u00e9\u00e9\u00e9\u00e9\u00e9\u00e9\u00e9\u00e9\u00e9\u00e9\u00e9\u00e9\u00e9\u00e9\u00e9\u00e9\u00e9\u00e9\u00e9\u00e9\u00e9\u00e9\u00e9\u00e9\u00e9\u00e9\u00e9\u00e9\u00e9"', "word", 2,
     "unexpected '\"\u00e9\u00e9"),
]
# a collect marker where only a spread may stand, a spread where nothing may follow (C13)
SPREAD_PLANTS = [
    ("idf__(1, ..xs__)", "word", 9, "unexpected '..'"),
    ("idf__(..xs__)", "word", 6, "unexpected '..'"),
    ("idf__(xs__.. ..)", "word", 13, "unexpected '..'"),
]


def planted_errors(ctx, cases, name, seeds, plants=None):
    """Plants a token that must be rejected at a statement boundary of a generated
    program and requires the diagnostic to point at it (line, column counted in
    characters by the renderer), under several layouts of the preceding text."""
    import random
    plain = sv.build(False)
    d = sv.scratch("plant-" + name)
    rnd = random.Random(ctx.seed)
    plants = plants or PLANTS
    jobs = []
    for i, (key, body, outcome) in enumerate(cases):
        if not body:
            continue
        for si, seed in enumerate(seeds):
            jobs.append((i, si, seed, key, body, rnd.randrange(len(body) + 1), rnd.randrange(len(plants))))

    def one(job):
        i, si, seed, key, body, at, pi_ = job
        text, kind, off, msg = plants[pi_]
        planted = list(body[:at]) + [{"t": "raw", "text": text, "kind": kind, "loc": [0, 7, 7]}] + list(body[at:])
        pl = rp.Placed(planted, None if seed is None else (hash((seed, i)) & 0x7fffffff), wild=0.6)
        fn = "s%d_%d.sd" % (i, si)
        with open(os.path.join(d, fn), "w", encoding="utf-8") as f:
            f.write(pl.text)
        so, se, code = sv.run_seed(plain, fn, d)
        l, c = pl.pos[(0, 7, 7)]
        want = ("%s:%d:%d: %s" % (fn, l, c + off, msg)).encode()
        ok = code == 103 and so == b"" and se.startswith(want)
        return None if ok else (key, pl.text, want.decode(), so, se, code)
    res = sv.pmap(one, jobs)
    ctx.evaluations += len(jobs)
    ctx.validated += len(jobs)
    for r in res:
        if r:
            key, text, want, so, se, code = r
            ctx.violation("a planted offending token is not reported at its position (%s %s)" % (name, key),
                          script=text, detail={"expected_prefix": want, "stdout": so.decode(errors="replace"),
                                               "stderr": se.decode(errors="replace"), "exit": code})
    return len(jobs)


def c18(ctx):
    import lexcheck as lx
    nseeds = 3 if ctx.quick else 8
    ctx.rule = ("positions: (a) SeedLex PosInv (incremental line/column = the declarative position) on all strings "
                "<= 2-3 over the branch alphabet incl. tab, CR, LF, comments, 2- and 4-byte characters; (b) the "
                "failing programs of the C17 model (every runtime error kind x hosting position, call depth 0-1) "
                "rendered under %d seeded layouts (blank lines, tabs, CR LF, comments with multi-byte text, "
                "continuation breaks): the diagnostic position and every stack-trace position must be where the "
                "renderer recorded the anchor token, and the position of every AST node must equal the renderer's "
                "record; (c) the token stream of every rendered text against SeedLex (start and end of every token); "
                "(d) 15 planted offending tokens (syntax errors, unexpected characters, bad escapes after multi-byte "
                "text, unescaped $, bad slot start, integer overflow) at a random statement boundary under layouts; "
                "non-trivial = every (program, layout)" % nseeds)
    specs = run_mc_lex(ctx, 2 if ctx.quick else 3, "FullAlphabet", "MC_Lex_pos")
    lx.check_texts(ctx, [lx.text_of(o["src"]) for o in specs], specs, "c18lex", "C18")
    out = ctx.run_model("MC_C17", "C17Params", invariants=["C17Laws"],
                        constants={"MaxDepth": "= %d" % (0 if ctx.quick else 1)}, name="MC_C17pos", workers=16)
    seeds = tuple(ctx.seed * 1000 + i for i in range(nseeds))
    cases, _ = ctx.replay(out, "c18", seeds=seeds, render_opts={"wild": 0.6, "underscore_prob": 0.3})
    # (c) token positions of rendered texts
    d = os.path.join(sv.WORK, "replay-c18")
    files = sorted(f for f in os.listdir(d) if f.endswith(".sd"))
    files = files[:: max(1, len(files) // (1500 if ctx.quick else 12000))]
    texts = [open(os.path.join(d, f), encoding="utf-8").read() for f in files]
    outs, st = lx.spec_lex(texts, "c18texts")
    ctx.states += st["distinct"]
    ctx.transitions += st["generated"]
    ctx.models["SeedLexRun:c18texts"] = {"module": "SeedLexRun", "texts": len(texts),
                                         "distinct_states": st["distinct"], "states_generated": st["generated"]}
    lx.check_texts(ctx, texts, outs, "c18texts", "C18")
    # (e) literals with multi-byte text before other tokens of the line; long chains / deep calls
    out15 = ctx.run_model("MC_C15", "C15Params", invariants=["C15Laws"], constants={"MaxSlots": "= 1"}, name="MC_C15pos")
    ctx.replay(out15, "c18-c15", seeds=seeds[:2], render_opts={"wild": 0.6})
    scale_family(ctx, "c18", ["chain", "strchain", "deep", "manyargs", "longstr"], seeds=seeds[:2])
    # (d) planted syntax / lexical errors
    planted_errors(ctx, cases[:: (4 if ctx.quick else 1)], "c18", seeds[: (2 if ctx.quick else 4)])


POSTFIX_TEXT = {"call": "()", "index": "[0]", "rindex": "[:]", "dot": ".p", "arrow": "->type"}


def c08_text(toks, tight=False):
    """Token sequence of the specification -> (text, [(token index, column)]).  tight: no blank where two
    tokens stay two tokens without one (`xs[0]-1`, `a+b*c`)."""
    out = ""
    cols = []
    for i, t in enumerate(toks):
        k = t["k"]
        if k == "post":
            piece = POSTFIX_TEXT[t["p"]]
            sep = ""
        else:
            piece = {"var": lambda: "x%d" % t["i"], "int": lambda: str(t["n"]), "op": lambda: t["op"],
                     "lp": lambda: "(", "rp": lambda: ")"}[k]()
            prev = toks[i - 1]["k"] if i else None
            sep = "" if (i == 0 or prev == "lp" or k == "rp"
                         or (prev == "op" and toks[i - 1]["op"] == "-" and k == "int" and
                             (i == 1 or toks[i - 2]["k"] in ("op", "lp")))) else " "
            if tight and sep == " ":
                # a blank is needed only between two symbols that would merge (`- -1` stays, `< -` stays)
                prev_t = toks[i - 1]
                prev_sym = prev_t["k"] == "op"
                cur_sym = k == "op" or (k == "int" and str(t["n"]).startswith("-"))
                if not (prev_sym and cur_sym):
                    sep = ""
        out += sep
        cols.append(len(out) + 1)
        out += piece
    return out, cols


def c08_tree_of_ast(e):
    t = e["t"]
    if t == "binop":
        return {"t": "bin", "op": e["op"], "l": c08_tree_of_ast(e["l"]), "r": c08_tree_of_ast(e["r"])}
    if t == "range":
        return {"t": "bin", "op": "..", "l": c08_tree_of_ast(e["start"]), "r": c08_tree_of_ast(e["end"])}
    if t == "var":
        return {"t": "var", "i": int(bytes(e["name"]).decode()[1:])}
    if t == "int":
        return {"t": "int", "n": e["n"]}
    if t == "call" and not e["args"]:
        return {"t": "post", "p": "call", "e": c08_tree_of_ast(e["f"])}
    if t == "index":
        return {"t": "post", "p": "index", "e": c08_tree_of_ast(e["e"])}
    if t == "rindex":
        return {"t": "post", "p": "rindex", "e": c08_tree_of_ast(e["e"])}
    if t == "prop":
        return {"t": "post", "p": "arrow" if e["tp"] else "dot", "e": c08_tree_of_ast(e["e"])}
    return {"t": "?" + t}


def strip_par(t):
    if isinstance(t, dict):
        return {k: strip_par(v) for k, v in t.items() if k != "par"}
    return t


def c08(ctx):
    mo = 3 if ctx.quick else 4
    ctx.rule = ("every sequence of 1..%d operators over all 16 binary operators (15 + `..`) with plain operands; "
                "sequences of 1-2 operators with one operand carrying each postfix form (call, index, range-index, "
                ".name, ->name) or being a negative literal; every tree over those frontiers written out with only "
                "the necessary parentheses; every placement of one redundant parenthesis pair; TLC checks "
                "UniqueGrouping (the machine's result is the only WellGrouped tree), RoundTrip and RedundantParens "
                "on every case, and the real parser's tree (AST dump) must equal the specification's tree, with "
                "the operator positions; non-trivial = cases with >= 2 operators or a postfix / sign" % mo)
    cfg = os.path.join(sv.scratch("cfg", clean=False), "MC_C08.cfg")
    open(cfg, "w").write("INIT Init\nNEXT Next\nCONSTANTS\n  MaxOps = %d\nINVARIANTS\n  UniqueGrouping\n"
                         "  RoundTrip\n  RedundantParens\n  EmitCase\n  EmitParens\n  EmitTrees\n"
                         "CHECK_DEADLOCK FALSE\n" % mo)
    rc, out = sv.tlc("MC_C08", cfg=cfg, timeout=3000, workers=16)
    if not sv.tlc_ok(rc, out):
        raise sv.ToolError("TLC on MC_C08 failed:\n" + sv.tlc_error_text(out))
    st = sv.tlc_stats(out)
    ctx.states += st["distinct"]
    ctx.transitions += max(st["generated"], 1)
    ctx.models["MC_C08"] = {"module": "MC_C08", "MaxOps": mo, "distinct_states": st["distinct"],
                            "invariants": ["UniqueGrouping", "RoundTrip", "RedundantParens"]}
    cases = sv.tagged(out, "CASE")
    # unique by token sequence
    seen = {}
    for cse in cases:
        seen.setdefault(json.dumps(cse["toks"]), cse)
    cases = list(seen.values())
    hooked = sv.build(True)
    d = sv.scratch("c08")
    B = 200
    batches = [cases[i:i + B] for i in range(0, len(cases), B)]

    def one(bi):
        batch = batches[bi]
        lines = []
        for j, cse in enumerate(batch):
            text, cols = c08_text(cse["toks"])
            lines.append("r%d := %s" % (j, text))
        fn = "b%d.sd" % bi
        with open(os.path.join(d, fn), "w") as f:
            f.write("\n".join(lines) + "\n")
        evs, so, se, code = sv.dump(hooked, d, fn)
        return sv.ast_of(evs), se
    res = sv.pmap(one, list(range(len(batches))))
    # the tiers do not depend on where the expression stands or on the blanks around its operators: the same
    # token sequences written tight and in other hosting positions must give the same tree
    HOSTS = [("tight", "r%d := %s", lambda st: st["rhs"], True),
             ("list", "r%d := [%s]", lambda st: st["rhs"]["items"][0]["e"], False),
             ("arg", "r%d := f(%s)", lambda st: st["rhs"]["args"][0]["e"], True),
             ("key", "r%d := {%s: 1}", lambda st: st["rhs"]["props"][0]["name"], False),
             ("value", "r%d := {\"k\": %s}", lambda st: st["rhs"]["props"][0]["value"], True),
             ("index", "r%d := xs[%s]", lambda st: st["rhs"]["i"], False),
             ("cond", "r%d := 0; if %s { }", lambda st: st["branches"][0]["cond"], False),
             ("paren", "r%d := (%s)->type()", lambda st: st["rhs"]["f"]["e"], True),
             ("stmt", "r%d := x9\n%s", lambda st: st["e"], False)]
    step = 7 if ctx.quick else 2
    hcases = [c for c in cases[::step] if not any(t["k"] == "op" and t["op"] == ".." for t in c["toks"])]
    hb = [hcases[i:i + B] for i in range(0, len(hcases), B)]

    def hosted(job):
        hi, bi = job
        name, fmt, get, tight = HOSTS[hi]
        fn = "h%d_%d.sd" % (hi, bi)
        with open(os.path.join(d, fn), "w") as f:
            f.write("\n".join(fmt % (j, c08_text(c["toks"], tight)[0]) for j, c in enumerate(hb[bi])) + "\n")
        evs, so, se, code = sv.dump(hooked, d, fn)
        return sv.ast_of(evs), se
    hjobs = [(hi, bi) for hi in range(len(HOSTS)) for bi in range(len(hb))]
    for (hi, bi), (ast, se) in zip(hjobs, sv.pmap(hosted, hjobs)):
        name, fmt, get, tight = HOSTS[hi]
        sts = [x for x in (ast or []) if not (x.get("t") == "declare" and name in ("cond", "stmt"))] if ast else None
        if ast is None or len(sts) != len(hb[bi]):
            ctx.violation("the real parser rejected generated expressions in %s position: %s"
                          % (name, se.decode(errors="replace")[:300]),
                          script=open(os.path.join(d, "h%d_%d.sd" % (hi, bi))).read()[:4000])
            continue
        for j, cse in enumerate(hb[bi]):
            ctx.evaluations += 1
            ctx.validated += 1
            text = fmt % (j, c08_text(cse["toks"], tight)[0])
            try:
                got = c08_tree_of_ast(get(sts[j]))
            except (KeyError, IndexError, TypeError):
                got = None
            want = strip_par(cse["tree"])
            if got != want:
                ctx.violation("the real parser groups `%s` differently from the specification (%s position)"
                              % (text, name), script=text + "\n", detail={"spec": want, "impl": got})
    for bi, (ast, se) in enumerate(res):
        batch = batches[bi]
        if ast is None or len(ast) != len(batch):
            # find the offending line by parsing the lines one by one
            ctx.violation("the real parser rejected a generated expression (batch %d): %s"
                          % (bi, se.decode(errors="replace")[:300]),
                          script=open(os.path.join(d, "b%d.sd" % bi)).read())
            continue
        for j, cse in enumerate(batch):
            ctx.evaluations += 1
            ctx.validated += 1
            text, cols = c08_text(cse["toks"])
            if sum(1 for t in cse["toks"] if t["k"] in ("op", "post")) >= 2:
                ctx.nontrivial.add(text)
            got = c08_tree_of_ast(ast[j]["rhs"])
            want = strip_par(cse["tree"])
            if got != want:
                ctx.violation("the real parser groups `%s` differently from the specification" % text,
                              script="r := %s\n" % text, detail={"spec": want, "impl": got})
                continue
            # operator positions: every binary operator's position is where it was written
            prefix = len("r%d := " % j)
            want_ops = sorted(cols[i] + prefix for i, t in enumerate(cse["toks"])
                              if t["k"] == "op" and not (t["op"] == "-" and i + 1 < len(cse["toks"])
                                                         and cse["toks"][i + 1]["k"] == "int"
                                                         and (i == 0 or cse["toks"][i - 1]["k"] in ("op", "lp"))))
            got_ops = []

            def walk(e):
                if isinstance(e, dict):
                    if e.get("t") == "binop":
                        got_ops.append(e["oploc"][1])
                    for v in e.values():
                        walk(v)
                elif isinstance(e, list):
                    for v in e:
                        walk(v)
            walk(ast[j]["rhs"])
            n_range = json.dumps(want).count('"op": ".."')
            if sorted(got_ops) != [c for c in want_ops][: len(want_ops)] and n_range == 0:
                ctx.violation("operator positions of `%s` differ" % text, script="r := %s\n" % text,
                              detail={"expected_columns": want_ops, "got": sorted(got_ops)}, prop="C18")
    for cse in cases[:: max(1, len(cases) // 3)][:3]:
        ctx.sample({"text": c08_text(cse["toks"])[0], "tree": strip_par(cse["tree"])})
    # evaluated: the grouping the parser produced is the grouping that is evaluated
    oute = ctx.run_model("MC_C08E", "C08EParams", progof="C08EProgOf")
    ctx.replay(oute, "c08e", seeds=(None, ctx.seed), render_opts={"extra_parens": 0.3})
    # a sign is not a binary minus: integer literals at the 64-bit limits in every operator context
    int_contexts(ctx, "c08", "C08")
    # the written grouping is the evaluated one also where only 64-bit overflow tells groupings apart
    d3 = sv.scratch("c08arith")
    o3, m3 = nested_arith_obs(ctx, d3, sv.build(False), 300 if ctx.quick else 3000, ctx.seed + 9)
    validate_obs(ctx, o3, m3, d3, "c08")
    for i3 in range(len(o3)):
        ctx.nontrivial.add("nested%d" % i3)
    scripts = [s for s in repo_test_scripts() if "precedence" in s[0] or "operations" in s[0]]
    corpus_validate(ctx, scripts, "c08tests")


I64_MAX = 2 ** 63 - 1
I64_MIN = -2 ** 63
GRID_QUICK = [0, 1, -1, 2, -2, 7, 2 ** 31, -2 ** 31, 2 ** 32, 3037000499, 3037000500, -3037000500,
              I64_MAX, I64_MAX - 1, I64_MIN, I64_MIN + 1]
GRID_FULL = sorted(set(GRID_QUICK + [3, -3, 10, -7, 2 ** 31 - 1, -2 ** 31 - 1, 2 ** 32 - 1, -2 ** 32, 2 ** 32 + 1,
                                     -3037000499, 3037000501, 2 ** 62, -2 ** 62, 2 ** 62 - 1, 2 ** 62 + 1,
                                     I64_MAX // 2, I64_MIN // 2, I64_MAX // 3, 4611686018427387904,
                                     6074000999, -6074000999, 1000000007, -999999937, 2 ** 53, -2 ** 53 + 1]))


def int_src(v):
    """Source text of an expression denoting the integer v."""
    if v == I64_MIN:
        return "(-9223372036854775807 - 1)"
    return str(v)


def big(v):
    n = abs(v)
    mag = []
    while n:
        mag.append(n % 10000)
        n //= 10000
    return {"neg": v < 0, "mag": mag}


def trunc_div(a, b):
    q = abs(a) // abs(b)
    return -q if (a < 0) != (b < 0) else q


def nested_arith_obs(ctx, d, plain, njobs3, seed):
    """Expressions of three operands at the 64-bit limits, run on the real interpreter; returns observations
    (kind `nested`) for Trace_Arith and their sources."""
    import random
    obs, meta = [], []
    # (2b) three operands: the written grouping is the evaluated grouping (an intermediate result that does not
    # fit is an error even if the regrouped expression would fit, and the other way round)
    rnd3 = random.Random(seed)
    vals3 = [I64_MAX, I64_MAX - 1, I64_MIN, I64_MIN + 1, 1, -1, 2, -2, 0, 3037000500, -3037000500, 2 ** 62]
    jobs3 = []
    # every triple over the extremes and +-1, +-2, 0 for the operator pairs where only the grouping decides
    # between a value and an overflow, written with the right operand parenthesised and without parentheses
    small = [I64_MAX, I64_MIN, 1, -1, 2, -2, 0]
    for o1, o2 in (("+", "+"), ("+", "-"), ("-", "+"), ("-", "-"), ("*", "*"), ("+", "*"), ("*", "+")):
        for a3 in small:
            for b3 in small:
                for c3 in small:
                    jobs3.append((len(jobs3), a3, o1, b3, o2, c3, "r"))
                    jobs3.append((len(jobs3), a3, o1, b3, o2, c3, "flat" if (a3 + b3 + c3) % 3 else "vars"))
    for i in range(njobs3):
        a3, b3, c3 = (rnd3.choice(vals3) for _ in range(3))
        o1, o2 = rnd3.choice("+-*"), rnd3.choice("+-*")
        jobs3.append((len(jobs3), a3, o1, b3, o2, c3, rnd3.choice(["l", "r", "flat", "vars"])))

    def src3(job):
        i, a3, o1, b3, o2, c3, shape = job
        A, B, C = int_src(a3), int_src(b3), int_src(c3)
        if shape == "l":
            return "print((%s %s %s) %s %s)\n" % (A, o1, B, o2, C)
        if shape == "r":
            return "print(%s %s (%s %s %s))\n" % (A, o1, B, o2, C)
        if shape == "vars":
            return "a := %s\nb := %s\nc := %s\nprint(a %s (b %s c))\n" % (A, B, C, o1, o2)
        return "print(%s %s %s %s %s)\n" % (A, o1, B, o2, C)

    def run3(job):
        fn = "n%d.sd" % job[0]
        with open(os.path.join(d, fn), "w") as fh:
            fh.write(src3(job))
        return sv.run_seed(plain, fn, d)
    for job, (so, se, code) in zip(jobs3, sv.pmap(run3, jobs3)):
        i, a3, o1, b3, o2, c3, shape = job
        ctx.evaluations += 1
        script = src3(job)
        cr = sv.crashed(se, code)
        if cr:
            ctx.violation("the interpreter crashed (%s) on an arithmetic expression" % cr, script=script, prop="C02")
            continue
        t = so.decode().strip()
        if code == 0 and se == b"" and re.fullmatch(r"-?[0-9]+", t):
            oc3 = ("value", int(t))
        elif code == 103 and so == b"" and se.count(b"\n") == 1 and se.endswith(b"caused an integer overflow\n"):
            oc3 = ("overflow", 0)
        else:
            ctx.violation("arithmetic observation is neither a value nor the overflow diagnostic",
                          script=script, detail={"stdout": t, "stderr": se.decode(errors="replace"), "exit": code})
            continue
        right = shape in ("r", "vars") or (shape == "flat" and o2 == "*" and o1 in "+-")
        obs.append({"kind": "nested", "a": big(a3), "b": big(b3), "c": big(c3), "op1": o1, "op2": o2,
                    "right": right, "res": oc3[0], "r": big(oc3[1])})
        meta.append(script)
    return obs, meta


def validate_obs(ctx, obs, meta, d, name):
    """Observations validated by TLC with exact arithmetic (Trace_Arith)."""
    of = os.path.join(d, "obs-%s.ndjson" % name)
    with open(of, "w") as fh:
        for o in obs:
            fh.write(json.dumps(o) + "\n")
    rc, out = sv.tlc("Trace_Arith", cfg=os.path.join(sv.SPEC, "Trace_Arith.cfg"), env={"SEED_OBS": of},
                     workers=16, timeout=1800, metaname="Trace_Arith-" + name)
    if not sv.tlc_ok(rc, out):
        raise sv.ToolError("Trace_Arith failed:\n" + sv.tlc_error_text(out))
    st = sv.tlc_stats(out)
    ctx.states += st["distinct"]
    ctx.transitions += max(st["generated"], 1)
    ctx.models["Trace_Arith:" + name] = {"module": "Trace_Arith", "observations": len(obs),
                                         "distinct_states": st["distinct"]}
    ctx.validated += len(obs)
    for l in out:
        m = re.match(r'"BADOBS (\d+)"', l)
        if m:
            k = int(m.group(1)) - 1
            ctx.violation("an observed arithmetic result is not what exact arithmetic on the written grouping gives",
                          script=meta[k], detail={"observation": obs[k]})


def c06(ctx):
    import random
    plain = sv.build(False)
    ctx.rule = ("TLC at 8 bits: the laws (a/b)*b + a%%b = a, remainder sign and magnitude, truncation toward zero, "
                "overflow-free product test = exact product fits, result = exact iff defined and fits else a "
                "diagnostic naming operation and operands, comparisons = integer order -- ASSUMEs over all 65 536 "
                "pairs; op-assign = assign of the plain operation on variable / element / property targets and "
                "`a .. b` = ascending list, on the machine around the 8-bit boundary; conformance at 64 bits: for "
                "every ordered pair of a %d-value boundary grid (0, +-1, +-2, +-2^31, +-2^32, +-3037000499/500, "
                "2^63-1, -2^63 and neighbours ...) plus seeded random 64-bit pairs, every operator + - * / %% in "
                "plain and three op-assign forms and < <= > >= == !=, run on the real interpreter; every "
                "observation validated by TLC with exact limb arithmetic (BigInt; quotient and remainder by their "
                "postcondition); integer literals with `_` and around 2^63; ranges at the extremes; non-trivial = "
                "every observation" % (len(GRID_QUICK) if ctx.quick else len(GRID_FULL)))
    # (1) the laws at 8 bits, and BigInt itself
    ctx.run_model("MC_Arith", "ArithParams", invariants=["ArithLaws"], minint="Arith8Min", maxint="Arith8Max",
                  progof="ArithProgOf")
    int_contexts(ctx, "c06", "C06")
    scale_family(ctx, "c06", ["range", "chain"])
    boundary_programs(ctx, "c06")
    oute = ctx.run_model("MC_C08E", "C08EParams", progof="C08EProgOf", name="MC_C08E_c06")
    ctx.replay(oute, "c06-groupings", seeds=(None,))
    # op-assignment = assignment also under shadowing (the target is the binding a read sees)
    outs = ctx.run_model("MC_C06", "C06Params", invariants=["OpAssignIsAssign"], props=FRAME_PROPS + ["ShadowFrame"])
    ctx.replay(outs, "c06-shadow", seeds=(None,) if ctx.quick else (None, ctx.seed))
    ctx.notes.append("ASSUME DivMod, RemSign, TruncToZero, MulFitsOk, ResultRule, OrderRule over all 65 536 8-bit "
                     "pairs; MC_BigInt ASSUMEs (BigInt = native arithmetic on values straddling limb boundaries)")
    cfg = os.path.join(sv.SPEC, "MC_BigInt.cfg")
    rc, out = sv.tlc("MC_BigInt", cfg=cfg, workers=2, timeout=600)
    if not sv.tlc_ok(rc, out):
        raise sv.ToolError("MC_BigInt failed:\n" + sv.tlc_error_text(out))
    # (2) observations of the real interpreter
    rnd = random.Random(ctx.seed)
    grid = GRID_QUICK if ctx.quick else GRID_FULL
    pairs = [(a, b) for a in grid for b in grid]
    for _ in range(150 if ctx.quick else 2000):
        def r64():
            k = rnd.randrange(1, 64)
            return rnd.randrange(-2 ** k, 2 ** k)
        pairs.append((r64(), r64()))
        pairs.append((max(I64_MIN, min(I64_MAX, r64() * r64())), r64()))
    d = sv.scratch("c06")
    forms = ["plain", "var", "elem", "prop"]
    jobs = []
    for pi_, (a, b) in enumerate(pairs):
        fs = forms if (a in grid and b in grid) else [rnd.choice(forms)]
        for op in ["+", "-", "*", "/", "%"]:
            for f in fs:
                jobs.append((len(jobs), "arith", op, f, a, b))
        for op in ["<", "<=", ">", ">=", "==", "!="]:
            jobs.append((len(jobs), "cmp", op, "plain", a, b))

    def prog(kind, op, f, a, b):
        A, B = int_src(a), int_src(b)
        if f == "plain":
            return "print(%s %s %s)\n" % (A, op, B)
        if f == "var":
            return "x := %s\nx %s= %s\nprint(x)\n" % (A, op, B)
        if f == "elem":
            return "xs := [0, %s]\nxs[1] %s= %s\nprint(xs[1])\n" % (A, op, B)
        return "o := {\"p\": %s}\no.p %s= %s\nprint(o[\"p\"])\n" % (A, op, B)

    def run(job):
        i, kind, op, f, a, b = job
        fn = "a%d.sd" % i
        with open(os.path.join(d, fn), "w") as fh:
            fh.write(prog(kind, op, f, a, b))
        return sv.run_seed(plain, fn, d)
    res = sv.pmap(run, jobs)
    obs = []
    meta = []
    pending = {}

    def outcome(job, r):
        """('value', int) / ('overflow',) / ('bool', b) / ('bad', why)"""
        i, kind, op, f, a, b = job
        so, se, code = r
        cr = sv.crashed(se, code)
        if cr:
            return ("crash", cr)
        if code == 0 and se == b"":
            t = so.decode().strip()
            if t in ("true", "false"):
                return ("bool", t == "true")
            if re.fullmatch(r"-?[0-9]+", t):
                return ("value", int(t))
            return ("bad", "unexpected output %r" % t)
        want = ("'%d %s %d' caused an integer overflow\n" % (a, op, b)).encode()
        if code == 103 and so == b"" and se.endswith(want) and se.count(b"\n") == 1:
            return ("overflow",)
        return ("bad", "stdout=%r stderr=%r exit=%r" % (so[:80], se[:200], code))

    for job, r in zip(jobs, res):
        i, kind, op, f, a, b = job
        oc = outcome(job, r)
        ctx.evaluations += 1
        script = prog(kind, op, f, a, b)
        if oc[0] == "crash":
            ctx.violation("the interpreter crashed (%s) on an arithmetic operation" % oc[1], script=script, prop="C02")
            continue
        if oc[0] == "bad":
            ctx.violation("arithmetic observation is neither a value nor the overflow diagnostic: %s" % oc[1],
                          script=script)
            continue
        if kind == "cmp":
            if oc[0] != "bool":
                ctx.violation("comparison did not yield a boolean", script=script, detail={"got": oc})
                continue
            obs.append({"kind": "cmp", "op": op, "a": big(a), "b": big(b), "rb": oc[1]})
            meta.append(script)
        elif op in ("+", "-", "*"):
            obs.append({"kind": "arith", "op": op, "a": big(a), "b": big(b), "res": oc[0],
                        "r": big(oc[1]) if oc[0] == "value" else big(0)})
            meta.append(script)
        else:
            key = (a, b, f)
            pending.setdefault(key, {})[op] = (oc, script)
            if len(pending[key]) == 2:
                q, qs = pending[key]["/"]
                rr, rs = pending[key]["%"]
                obs.append({"kind": "divmod", "a": big(a), "b": big(b), "qres": q[0],
                            "q": big(q[1]) if q[0] == "value" else big(0), "rres": rr[0],
                            "r": big(rr[1]) if rr[0] == "value" else big(0)})
                meta.append(qs + "# and\n" + rs)
    o3, m3 = nested_arith_obs(ctx, d, plain, 400 if ctx.quick else 4000, ctx.seed + 5)
    obs += o3
    meta += m3
    # several literals in one source text (each literal denotes its own value)
    multi = ["print([1_000, 2_5, 1_0 + 1, 7, 3_3_3])\nprint(2_5 == 25)\nfor [_, v] in -1_3 .. -1_1 { print(v); }\n"
             "print(1_000)\nprint(9_223_372_036_854_775_807)\nprint(1_0)\n"]
    for i, src in enumerate(multi):
        fn = "m%d.sd" % i
        open(os.path.join(d, fn), "w").write(src)
        so, se, code = sv.run_seed(plain, fn, d)
        ctx.evaluations += 1
        want = "[\n    1000,\n    25,\n    11,\n    7,\n    333,\n]\ntrue\n-13\n-12\n1000\n9223372036854775807\n10\n"
        if code != 0 or so.decode() != want:
            ctx.violation("integer literals with separators in one source text do not denote their values",
                          script=src, detail={"stdout": so.decode(errors="replace"),
                                              "stderr": se.decode(errors="replace"), "expected": want})
    # literals
    lits = ["0", "7", "1_000", "1_2_3", "9223372036854775807", "9223372036854775808", "9_223_372_036_854_775_807",
            "0009", "18446744073709551616", "99999999999999999999", "1__0", "4611686018427387904", "000", "10_",
            "0_000_000_000_000_000_000_042", "000_000_000_000_000_000_000_1", "0_0", "00000000000000000000009223372036854775807",
            "0_9223372036854775808", "18446744073709551617", "18446744073709551619", "18_446_744_073_709_551_616"]
    for i, lt in enumerate(lits):
        fn = "l%d.sd" % i
        open(os.path.join(d, fn), "w").write("print(%s)\n" % lt)
        so, se, code = sv.run_seed(plain, fn, d)
        ctx.evaluations += 1
        acc = code == 0
        if not acc and not (code == 103 and so == b"" and se.decode().rstrip("\n").endswith(
                "'%s' is too high for an int" % lt)):
            ctx.violation("integer literal %s neither accepted nor rejected as too high" % lt,
                          script="print(%s)\n" % lt, detail={"stderr": se.decode(errors="replace"), "exit": code})
            continue
        obs.append({"kind": "literal", "digits": [ord(c) for c in lt], "accepted": acc,
                    "printed": [ord(c) for c in so.decode().strip()] if acc else []})
        meta.append("print(%s)\n" % lt)
    # negative literals and ranges at the extremes
    rng = [(I64_MAX - 2, I64_MAX), (I64_MIN, I64_MIN + 3), (-2, 3), (5, 5), (7, 2), (I64_MAX, I64_MAX),
           (I64_MAX - 1, I64_MIN), (-1, 2)]
    for i, (a, b) in enumerate(rng):
        fn = "r%d.sd" % i
        src = "for [k, v] in %s .. %s { print(v); }\nprint(-5)\nprint(-9223372036854775807)\n" % (int_src(a), int_src(b))
        open(os.path.join(d, fn), "w").write(src)
        so, se, code = sv.run_seed(plain, fn, d)
        ctx.evaluations += 1
        lines = so.decode().split("\n")[:-1]
        if code != 0 or lines[-2:] != ["-5", "-9223372036854775807"]:
            ctx.violation("range / negative literal program failed", script=src,
                          detail={"stdout": so.decode(errors="replace"), "stderr": se.decode(errors="replace")})
            continue
        obs.append({"kind": "range", "a": big(a), "b": big(b), "items": [big(int(x)) for x in lines[:-2]]})
        meta.append(src)
    # (3) validation by TLC with exact arithmetic
    of = os.path.join(d, "obs.ndjson")
    with open(of, "w") as fh:
        for o in obs:
            fh.write(json.dumps(o) + "\n")
    rc, out = sv.tlc("Trace_Arith", cfg=os.path.join(sv.SPEC, "Trace_Arith.cfg"), env={"SEED_OBS": of},
                     workers=16, timeout=1800)
    if not sv.tlc_ok(rc, out):
        raise sv.ToolError("Trace_Arith failed:\n" + sv.tlc_error_text(out))
    st = sv.tlc_stats(out)
    ctx.states += st["distinct"]
    ctx.transitions += max(st["generated"], 1)
    ctx.models["Trace_Arith"] = {"module": "Trace_Arith", "observations": len(obs),
                                 "distinct_states": st["distinct"]}
    ctx.validated += len(obs)
    for i in range(len(obs)):
        ctx.nontrivial.add("obs%d" % i)
    for l in out:
        m = re.match(r'"BADOBS (\d+)"', l)
        if m:
            k = int(m.group(1)) - 1
            ctx.violation("an observed arithmetic result is not what the laws of C06 allow", script=meta[k],
                          detail={"observation": obs[k]})
    for k in (0, len(obs) // 2, len(obs) - 1):
        ctx.sample({"program": meta[k], "observation": obs[k]})


REGISTRY = {
    "C06": c06,
    "C08": c08,
    "C18": c18,
    "C15": c15,
    "C09": c09,
    "C03": c03,
    "C19": c19,
    "C02": c02,
    "C01": c01,
    "C17": c17,
    "C13": c13,
    "C14": c14,
    "C04": c04,
    "C20": c20,
    "C05": c05,
    "C10": c10,
    "C11": c11,
    "C12": c12,
    "C16": c16,
    "C07": c07,
}


def selftest():
    """Demonstrates the binding: each corrupted observation / prediction must be
    rejected, and the uncorrupted one accepted."""
    import copy
    import io
    import contextlib
    import lexcheck as lx
    ok = True

    def quiet(fn):
        buf = io.StringIO()
        with contextlib.redirect_stdout(buf):
            return fn()

    # (1) a generated behaviour: good accepted; one printed line / the diagnostic column changed -> rejected
    body_src = "x := [1, 2]\nprint(x[0] + 1)\nprint(x[5])\n"
    hooked = sv.build(True)
    d = sv.scratch("selftest")
    open(os.path.join(d, "s.sd"), "w").write(body_src)
    evs, _, _, _ = sv.dump(hooked, d, "s.sd")
    body = sv.ast_of(evs)
    outs, _ = sv.spec_eval([body], "selftest")
    good = outs[0]
    # relabel the dumped tree with paths is not needed: replay works on (key, body, outcome)
    # through SeedRun's real positions, so use corpus_validate-style comparison here
    plain = sv.build(False)
    so, se, code = sv.run_seed(plain, "s.sd", d)
    acc = sv.matches(sv.expected(good, "s.sd"), so, se, code)
    bad1 = copy.deepcopy(good)
    bad1["out"][0] = [51]
    bad2 = copy.deepcopy(good)
    bad2["status"]["diag"]["locs"][0]["loc"][1] += 1
    r1 = sv.matches(sv.expected(bad1, "s.sd"), so, se, code)
    r2 = sv.matches(sv.expected(bad2, "s.sd"), so, se, code)
    print("selftest behaviour: good accepted=%s, corrupted print accepted=%s, corrupted column accepted=%s"
          % (acc, r1, r2))
    ok &= acc and not r1 and not r2

    # (2) token stream: good accepted; a token column / a dropped token rejected
    texts = ['x := "a\\n" + 1 # c\n  y\n']
    specs, _ = lx.spec_lex(texts, "selftest")
    c0 = Ctx("C03", "quick", 1)
    quiet(lambda: lx.check_texts(c0, texts, specs, "selftest", "C03"))
    s1 = copy.deepcopy(specs)
    s1[0]["toks"][2]["c"] += 1
    c1 = Ctx("C03", "quick", 1)
    quiet(lambda: lx.check_texts(c1, texts, s1, "selftest", "C03"))
    s2 = copy.deepcopy(specs)
    del s2[0]["toks"][3]
    c2 = Ctx("C03", "quick", 1)
    quiet(lambda: lx.check_texts(c2, texts, s2, "selftest", "C03"))
    print("selftest tokens: good violations=%d, shifted column violations=%d, dropped token violations=%d"
          % (c0.nviol, c1.nviol, c2.nviol))
    ok &= c0.nviol == 0 and c1.nviol == 1 and c2.nviol == 1

    # (3) arithmetic observations: a correct one allowed, results off by one / wrong overflow flagged
    obs = [{"kind": "arith", "op": "*", "a": big(3037000500), "b": big(3037000500), "res": "overflow", "r": big(0)},
           {"kind": "arith", "op": "*", "a": big(3037000499), "b": big(3037000499), "res": "value",
            "r": big(3037000499 * 3037000499)},
           {"kind": "arith", "op": "*", "a": big(3037000499), "b": big(3037000499), "res": "value",
            "r": big(3037000499 * 3037000499 + 1)},
           {"kind": "arith", "op": "+", "a": big(I64_MAX), "b": big(1), "res": "value", "r": big(I64_MIN)},
           {"kind": "divmod", "a": big(-7), "b": big(2), "qres": "value", "q": big(-3), "rres": "value", "r": big(-1)},
           {"kind": "divmod", "a": big(-7), "b": big(2), "qres": "value", "q": big(-4), "rres": "value", "r": big(1)},
           {"kind": "cmp", "op": "<", "a": big(I64_MIN), "b": big(I64_MAX), "rb": False}]
    of = os.path.join(d, "obs.ndjson")
    with open(of, "w") as fh:
        for o in obs:
            fh.write(json.dumps(o) + "\n")
    rc, out = sv.tlc("Trace_Arith", cfg=os.path.join(sv.SPEC, "Trace_Arith.cfg"), env={"SEED_OBS": of},
                     workers=2, timeout=300)
    badset = sorted(int(m.group(1)) for l in out for m in [re.match(r'"BADOBS (\d+)"', l)] if m)
    print("selftest arithmetic: rejected observations", badset, "(expected [3, 4, 6, 7])")
    ok &= sv.tlc_ok(rc, out) and badset == [3, 4, 6, 7]
    print("selftest", "ok" if ok else "FAILED")
    return 0 if ok else 1
