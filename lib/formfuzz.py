"""Syntactic-form variants of generated programs.

The bounded models write every operand in one syntactic form (a literal, a plain
variable).  An interpreter may special-case syntactic shapes (a literal key, a
bare variable as loop iterable, a literal list on the right of `:=`, a
spread-only literal ...).  This module rewrites expressions of TLC-generated
programs into other forms -- an interpolated string, a concatenation, a call of
an identity function, an element of a singleton list, a spread-only literal, a
property of a fresh object, a statement wrapped in a block or branch -- to
produce *new* programs.  The rewrites need not preserve meaning: the new program
is parsed by the real parser and executed in the specification (SeedRun) on
that tree, and the real run must be a behaviour of it.
"""
import copy
import random

IDF = list(b"idf__")
PRELUDE = [{"t": "fn", "name": IDF, "nameloc": [9000, 1], "params": [{"t": "var", "loc": [9000, 2], "name": list(b"v__")}],
            "collect": False,
            "body": [{"t": "return", "loc": [9000, 3], "e": {"t": "var", "loc": [9000, 4], "name": list(b"v__")}}]}]


class Fuzzer:
    def __init__(self, rnd):
        self.rnd = rnd
        self.n = 0

    def loc(self):
        self.n += 1
        return [9100, self.n]

    # ---- collecting rewritable sites: (container, key) pairs whose value is an expression
    def sites(self, body):
        out = []

        def expr(parent, key, e, target):
            if not isinstance(e, dict) or e.get("t") in (None, "none"):
                return
            if not target:
                out.append((parent, key))
            t = e["t"]
            if t == "binop":
                expr(e, "l", e["l"], False)
                expr(e, "r", e["r"], False)
            elif t == "list":
                for it in e["items"]:
                    expr(it, "e", it["e"], target)
            elif t == "index":
                expr(e, "e", e["e"], False)
                expr(e, "i", e["i"], False)
            elif t == "rindex":
                expr(e, "e", e["e"], False)
                expr(e, "start", e["start"], False)
                expr(e, "end", e["end"], False)
            elif t == "range":
                expr(e, "start", e["start"], False)
                expr(e, "end", e["end"], False)
            elif t == "object":
                for p in e["props"]:
                    if p["t"] == "pair":
                        expr(p, "name", p["name"], False)
                        expr(p, "value", p["value"], target)
                    else:
                        expr(p, "e", p["e"], target)
            elif t == "prop":
                expr(e, "e", e["e"], False)
            elif t == "call":
                expr(e, "f", e["f"], False)
                for a in e["args"]:
                    expr(a, "e", a["e"], False)
            elif t == "func":
                block(e["body"])
            elif t == "istr":
                for p in e["parts"]:
                    if p["t"] == "slot":
                        pass        # slot sources are re-rendered text: leave them alone

        def block(ss):
            for i, st in enumerate(ss):
                stmt(ss, i, st)

        def stmt(parent, key, st):
            t = st["t"]
            if t in ("expr", "return"):
                expr(st, "e", st["e"], False)
            elif t in ("declare", "assign", "opassign"):
                expr(st, "rhs", st["rhs"], False)
                expr(st, "lhs", st["lhs"], True)
            elif t == "if":
                for br in st["branches"]:
                    expr(br, "cond", br["cond"], False)
                    block(br["body"])
                block(st["els"]["body"])
            elif t == "while":
                expr(st, "cond", st["cond"], False)
                block(st["body"])
            elif t == "for":
                expr(st, "iter", st["iter"], False)
                expr(st, "lhs", st["lhs"], True)
                block(st["body"])
            elif t == "fn":
                block(st["body"])
            elif t == "block":
                block(st["body"])
            if t in ("expr", "assign", "opassign"):
                out.append((parent, key, "stmt"))
        block(body)
        return out

    # ---- rewrites
    def rewrite_expr(self, e):
        r = self.rnd
        t = e["t"]
        L = self.loc
        opts = ["idf", "single", "objprop"]
        if t == "str":
            opts += ["istr0", "istr1", "concat", "istr0", "istr1"]
        if t == "int":
            opts += ["plus0"]
        if t == "list" and not e.get("collect"):
            opts += ["pluslist", "slice", "spreadonly", "spreadonly"]
        if t == "object":
            opts += ["objspreadonly", "objspreadonly"]
        if t == "var":
            opts += ["single", "idf"]
        k = r.choice(opts)
        if k == "idf":
            return {"t": "call", "loc": L(), "f": {"t": "var", "loc": L(), "name": IDF},
                    "args": [{"e": e, "spread": False}]}
        if k == "single":
            return {"t": "index", "loc": L(), "e": {"t": "list", "loc": L(), "collect": False,
                                                     "items": [{"e": e, "spread": False}]},
                    "i": {"t": "int", "loc": L(), "n": 0}}
        if k == "objprop":
            return {"t": "prop", "loc": L(), "tp": False, "name": list(b"v__"),
                    "e": {"t": "object", "loc": L(),
                          "props": [{"t": "pair", "name": {"t": "str", "loc": L(), "s": list(b"v__")}, "value": e}]}}
        if k == "istr0":
            return {"t": "istr", "loc": L(), "parts": [{"t": "lit", "s": e["s"]}]}
        if k == "istr1":
            return {"t": "istr", "loc": L(), "parts": [{"t": "lit", "s": []}, {"t": "slot", "off": 0, "e": e},
                                                        {"t": "lit", "s": []}]}
        if k == "concat":
            s = bytes(e["s"]).decode("utf-8")
            h = len(s) // 2
            return {"t": "binop", "loc": L(), "op": "+", "oploc": L(),
                    "l": {"t": "str", "loc": L(), "s": list(s[:h].encode())},
                    "r": {"t": "str", "loc": L(), "s": list(s[h:].encode())}}
        if k == "plus0":
            return {"t": "binop", "loc": L(), "op": "+", "oploc": L(), "l": e, "r": {"t": "int", "loc": L(), "n": 0}}
        if k == "pluslist":
            return {"t": "binop", "loc": L(), "op": "+", "oploc": L(), "l": e,
                    "r": {"t": "list", "loc": L(), "collect": False, "items": []}}
        if k == "slice":
            return {"t": "rindex", "loc": L(), "e": e, "start": {"t": "none"}, "end": {"t": "none"}}
        if k == "spreadonly":
            return {"t": "list", "loc": L(), "collect": False, "items": [{"e": e, "spread": True}]}
        if k == "objspreadonly":
            return {"t": "object", "loc": L(), "props": [{"t": "single", "e": e, "spread": True, "collect": False}]}
        return e

    def variant(self, body, nrewrites):
        body = copy.deepcopy(body)
        for _ in range(nrewrites):
            ss = self.sites(body)
            if not ss:
                break
            site = self.rnd.choice(ss)
            if len(site) == 3:
                parent, key, _ = site
                st = parent[key]
                if self.rnd.random() < 0.5:
                    parent[key] = {"t": "block", "body": [st]}
                else:
                    parent[key] = {"t": "if", "branches": [{"cond": {"t": "bool", "loc": self.loc(), "b": True},
                                                             "body": [st]}], "els": {"some": False, "body": []}}
            else:
                parent, key = site
                parent[key] = self.rewrite_expr(parent[key])
        return PRELUDE + body


def variants(cases, seed, per_case=1, max_cases=400, nrewrites=(1, 1, 2)):
    """cases: (key, body, outcome). Returns list of (label, body)."""
    rnd = random.Random(seed)
    pool = [c for c in cases if c[2] is not None]
    if len(pool) > max_cases:
        pool = rnd.sample(pool, max_cases)
    out = []
    for key, body, _ in pool:
        for j in range(per_case):
            fz = Fuzzer(rnd)
            try:
                out.append(("%s~f%d" % (key, j), fz.variant(body, rnd.choice(nrewrites))))
            except Exception:
                continue
    return out
