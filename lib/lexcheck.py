"""Conformance of the real lexer / front end with SeedLex.

 * the token stream the real lexer produces (token-dump hook) must equal the
   specification's, token by token: kind, decoded text, slot offsets, start and
   end position; and the lexical error: kind, position, offending text;
 * the CLI on the same text must follow the front-end protocol: either the text
   parses (and then anything the evaluator does is the business of the other
   properties), or exactly one diagnostic `<path>:<line>:<col>: <message>`, exit
   103, empty stdout, at a position that is the start of one of the
   specification's tokens, the lexical error's position, or the end of the last
   token; a lexical error reported must carry the specification's message.
"""
import json
import os
import re

import seedverif as sv


def text_of(cps):
    return "".join(chr(c) for c in cps)


def cps_of(s):
    return [ord(ch) for ch in s]


def norm_dump_token(e):
    k = e["k"]
    text, slots = [], []
    if k == "Ident":
        text = cps_of(bytes(e["text"]).decode("utf-8"))
    elif k == "IntLiteral":
        text = cps_of(e["n"])
    elif k in ("StrLiteral", "InterpStrLiteral"):
        text = cps_of(bytes(e["s"]).decode("utf-8"))
        slots = e.get("slots", [])
    return {"k": k, "text": text, "slots": [list(x) for x in slots], "l": e["l"], "c": e["c"],
            "el": e["el"], "ec": e["ec"]}


def norm_dump(evs):
    toks, err = [], None
    for e in evs:
        if e.get("ev") == "tok":
            toks.append(norm_dump_token(e))
        elif e.get("ev") == "lexerr":
            err = {"k": e["k"], "l": e["l"], "c": e["c"], "ch": cps_of(bytes(e["ch"]).decode("utf-8"))}
    return toks, err


def norm_spec(o):
    toks = [{"k": t["k"], "text": list(t["text"]), "slots": [list(x) for x in t["slots"]],
             "l": t["l"], "c": t["c"], "el": t["el"], "ec": t["ec"]} for t in o["toks"]]
    e = o["err"]
    err = None if e["k"] == "none" else {"k": e["k"], "l": e["l"], "c": e["c"], "ch": list(e["ch"])}
    return toks, err


def spec_msg(o):
    out = ""
    for p in o["msg"]:
        out += p["s"] if p["p"] == "s" else text_of(p["c"])
    return out


def spec_lex(texts, name, workers=8, timeout=900):
    """Runs SeedLexRun on the texts (str). Returns outcomes (dict or None) and stats."""
    d = sv.scratch("lexrun-" + name)
    pf = os.path.join(d, "texts.ndjson")
    with open(pf, "w") as f:
        for t in texts:
            f.write(json.dumps({"src": cps_of(t)}) + "\n")
    rc, lines = sv.tlc("SeedLexRun", env={"SEED_TEXTS": pf}, workers=workers, timeout=timeout,
                       metaname="lexrun-" + name)
    if not sv.tlc_ok(rc, lines):
        raise sv.ToolError("SeedLexRun failed:\n" + sv.tlc_error_text(lines))
    outs = [None] * len(texts)
    for o in sv.tagged(lines, "LEX"):
        outs[o["ti"] - 1] = o
    return outs, sv.tlc_stats(lines)


_FIRST = re.compile(rb"^(.*?):(\d+):(\d+): (.*)$", re.S)


def check_texts(ctx, texts, specs, name, prop_lex, prop_front="C03"):
    """texts: list of str; specs: matching list of LEX outcomes (with toks/err/msg).
    Reports violations on ctx. Returns number compared."""
    hooked = sv.build(True)
    plain = sv.build(False)
    d = sv.scratch("lex-" + name)
    names = sv.write_scripts(d, [t.encode("utf-8") for t in texts], prefix="t")
    dumps = sv.pmap(lambda n: sv.dump(hooked, d, n), names)
    runs = sv.pmap(lambda n: sv.run_seed(plain, n, d), names)
    n = 0
    for i, (t, o) in enumerate(zip(texts, specs)):
        if o is None:
            ctx.skip("no LEX outcome")
            continue
        evs, hso, hse, hcode = dumps[i]
        so, se, code = runs[i]
        n += 1
        ctx.evaluations += 1
        ctx.validated += 1
        stoks, serr = norm_spec(o)
        dtoks, derr = norm_dump(evs)
        # the parse-only run (hooked build, SEED_VERIF_MODE=parse) decides about the front end; the complete run
        # of an accepted program may not terminate (`while true`): that is no front-end hang
        accepted = any(e.get("ev") == "ast" for e in evs)
        cr = sv.crashed(hse, hcode)
        if cr:
            ctx.violation("the front end crashed (%s) on %r" % (cr, t), script=t,
                          detail={"stderr": hse.decode(errors="replace")[-1500:], "exit": hcode}, prop="C03")
            continue
        cr = sv.crashed(se, code)
        if cr == "timeout" and accepted:
            ctx.skip("accepted program that does not end within the time limit (not a front-end matter)")
            cr = None
        elif cr:
            ctx.violation("the %s crashed (%s) on %r" % ("interpreter" if accepted else "front end", cr, t), script=t,
                          detail={"stderr": se.decode(errors="replace")[-1500:], "exit": code},
                          prop="C02" if accepted else "C03")
            continue
        if stoks != dtoks or serr != derr:
            k = next((j for j in range(min(len(stoks), len(dtoks))) if stoks[j] != dtoks[j]),
                     min(len(stoks), len(dtoks)))
            ctx.violation("token stream differs from the specification on %r at token %d" % (t, k),
                          script=t,
                          detail={"spec": stoks[k:k + 2], "impl": dtoks[k:k + 2], "spec_err": serr,
                                  "impl_err": derr}, prop=prop_lex)
            continue
        parsed = any(e.get("ev") == "ast" for e in evs)
        pred = o.get("parse")
        if pred is not None and (pred["kind"] == "accept") != parsed:
            # SeedGrammar: the token sequence is / is not a program
            ctx.violation("the parser %s %r, the grammar of the specification says %s"
                          % ("accepted" if parsed else "rejected", t, pred["kind"]), script=t,
                          detail={"predicted": pred, "stderr": se.decode(errors="replace")[:400]}, prop=prop_front)
            continue
        if parsed:
            continue         # accepted: what running it does belongs to the evaluator properties
        # rejected by the front end: the protocol
        nlines = t.count("\n") + 1
        bad = None
        m = _FIRST.match(se[:-1]) if se.endswith(b"\n") else None
        if so != b"":
            bad = "stdout is not empty although the file was rejected"
        elif code != 103:
            bad = "exit status %r instead of 103" % code
        elif m is None or m.group(1) != names[i].encode() \
                or len(re.findall(rb"(?m)^" + re.escape(names[i].encode()) + rb":", se)) != 1:
            # (the message may quote source text that contains a line break; what must not
            # happen is a second diagnostic)
            bad = "not exactly one diagnostic `<path>:<line>:<col>: <message>`"
        else:
            l, c, msg = int(m.group(2)), int(m.group(3)), m.group(4).decode("utf-8", errors="replace")
            allowed = {(tk["l"], tk["c"]) for tk in stoks}
            if stoks:
                allowed.add((stoks[-1]["el"], stoks[-1]["ec"]))
            if serr:
                allowed.add((serr["l"], serr["c"]))
            exact = None
            if pred is not None and pred["kind"] == "syntax":
                if pred["at"] <= len(stoks):
                    exact = (stoks[pred["at"] - 1]["l"], stoks[pred["at"] - 1]["c"])
                elif stoks:
                    exact = (stoks[-1]["el"], stoks[-1]["ec"])
            elif pred is not None and pred["kind"] == "lexical":
                exact = (serr["l"], serr["c"])
            if l > nlines + 1:
                bad = "reported line %d exceeds the number of lines + 1" % l
            elif exact is not None and (l, c) != exact:
                bad = "reported position %d:%d, but the first token that cannot continue a program is at %d:%d" \
                    % (l, c, exact[0], exact[1])
            elif (l, c) not in allowed:
                bad = "reported position %d:%d is not the start of a token, the lexical error or the end of input" % (l, c)
            elif serr and (l, c) == (serr["l"], serr["c"]):
                if msg != spec_msg(o):
                    bad = "lexical error message %r, specification says %r" % (msg, spec_msg(o))
            elif not msg.startswith("unexpected "):
                bad = "syntax error message %r is not of the documented form" % msg
        if bad:
            ctx.violation("front-end protocol violated on %r: %s" % (t, bad), script=t,
                          detail={"stdout": so.decode(errors="replace"), "stderr": se.decode(errors="replace"),
                                  "exit": code}, prop=prop_front)
    return n
