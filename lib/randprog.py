"""Seeded random Seed programs (as ASTs in the dump encoding) for validating
recorded executions of the real interpreter against the specification.

Independent of the TLA+ generators: larger programs (up to ~40 statements,
nesting depth 5), typed loosely so that most statements succeed and a few
fail (a failure ends the run, so the failure rate per statement is low).
Every loop is bounded by a dedicated counter and functions only call
functions defined before them, so every program terminates."""
import random

INT, BOOL, STR, LIST, OBJ, FN = "int", "bool", "str", "list", "obj", "fn"
CLO, MOBJ = "clo", "mobj"          # zero-argument closure returning an int; object with v / get / inc
LOCAL = "\0local"                  # key of the set of names declared in the current block
STRS = ["", "a", "b", "ab", "hé", "x y", "€", "z\n", "q\"", "$", "\\"]
KEYS = ["a", "b", "k", "B", "_x", "k k", ""]


class Gen:
    def __init__(self, seed, max_stmts=30, max_depth=4, err_rate=0.02, rich=0.3):
        self.rich = rich
        self.r = random.Random(seed)
        self.n = 0
        self.max_stmts = max_stmts
        self.max_depth = max_depth
        self.err_rate = err_rate
        self.budget = max_stmts
        self.uid = 0
        self.protected = set()     # loop counters: readable, never assigned by the body
        self.fns = []              # (name, arity) of the functions defined so far

    # -- node helpers
    def loc(self):
        self.n += 1
        return [self.n]

    def fresh(self, pfx="v"):
        self.uid += 1
        return "%s%d" % (pfx, self.uid)

    def name(self, s):
        return list(s.encode())

    def var(self, s):
        return {"t": "var", "loc": self.loc(), "name": self.name(s)}

    def int_(self, n):
        return {"t": "int", "loc": self.loc(), "n": n}

    def str_(self, s):
        return {"t": "str", "loc": self.loc(), "s": list(s.encode())}

    def bool_(self, b):
        return {"t": "bool", "loc": self.loc(), "b": b}

    def null(self):
        return {"t": "null", "loc": self.loc()}

    def binop(self, op, l, r):
        return {"t": "binop", "loc": self.loc(), "op": op, "oploc": self.loc(), "l": l, "r": r}

    def list_(self, es, spreads=None):
        return {"t": "list", "loc": self.loc(), "collect": False,
                "items": [{"e": e, "spread": bool(spreads and spreads[i])} for i, e in enumerate(es)]}

    def pat(self, es, collect=False):
        return {"t": "list", "loc": self.loc(), "collect": collect,
                "items": [{"e": e, "spread": False} for e in es]}

    def obj(self, pairs):
        return {"t": "object", "loc": self.loc(),
                "props": [{"t": "pair", "name": self.str_(k), "value": v} for k, v in pairs]}

    def call(self, f, args):
        return {"t": "call", "loc": self.loc(), "f": f, "args": [{"e": a, "spread": False} for a in args]}

    def index(self, e, i):
        return {"t": "index", "loc": self.loc(), "e": e, "i": i}

    def prop(self, e, n, tp=False):
        return {"t": "prop", "loc": self.loc(), "e": e, "name": self.name(n), "tp": tp}

    def print_(self, e):
        return {"t": "expr", "e": self.call(self.var("print"), [e])}

    # -- expressions by type
    def vars_of(self, env, ty):
        return [n for n, t in env.items() if t == ty and n != LOCAL]

    def func(self, params, body):
        return {"t": "func", "loc": self.loc(), "params": [self.var(p) for p in params], "collect": False, "body": body}

    def ret(self, e):
        return {"t": "return", "loc": self.loc(), "e": e}

    def opassign(self, lhs, op, rhs):
        return {"t": "opassign", "lhs": lhs, "op": op, "oploc": self.loc(), "rhs": rhs}

    def istr(self, pieces):
        """pieces: alternating literal text / slot expression, starting and ending with text"""
        parts = []
        for i, x in enumerate(pieces):
            parts.append({"t": "lit", "s": list(x.encode())} if i % 2 == 0 else {"t": "slot", "off": 0, "e": x})
        return {"t": "istr", "loc": self.loc(), "parts": parts}

    def closure_lit(self, env):
        """fn() { c += d; return c } over a fresh counter held by an enclosing call"""
        c = self.fresh("c")
        inner = self.func([], [self.opassign(self.var(c), "+", self.int_(self.r.randrange(1, 4))), self.ret(self.var(c))])
        mk = self.func([c], [self.ret(inner)])
        return self.call(mk, [self.expr(env, INT, 3)])

    def mobj_lit(self, env):
        this = self.var("this")
        return self.obj([("v", self.expr(env, INT, 3)),
                         ("get", self.func([], [self.ret(self.prop(self.var("this"), "v"))])),
                         ("inc", self.func(["d"], [self.opassign(self.prop(this, "v"), "+", self.var("d")),
                                                    self.ret(self.prop(self.var("this"), "v"))]))])

    def expr(self, env, ty, d=0):
        r = self.r
        if r.random() < self.err_rate * 0.5:
            ty = r.choice([INT, BOOL, STR, LIST, OBJ])       # deliberately mistyped
        vs = self.vars_of(env, ty)
        if vs and r.random() < 0.45:
            return self.var(r.choice(vs))
        deep = d < 3
        if ty == CLO:
            return self.closure_lit(env)
        if ty == MOBJ:
            return self.mobj_lit(env)
        if ty == INT and deep and r.random() < self.rich * 0.5:
            cs, ms = self.vars_of(env, CLO), self.vars_of(env, MOBJ)
            k = r.random()
            if cs and k < 0.4:
                return self.call(self.var(r.choice(cs)), [])
            if ms and k < 0.6:
                return self.call(self.prop(self.var(r.choice(ms)), "get"), [])
            if ms and k < 0.8:
                return self.call(self.index(self.var(r.choice(ms)), self.str_("inc")), [self.int_(r.randrange(0, 3))])
            if ms:
                return self.prop(self.var(r.choice(ms)), "v")
        if ty == STR and deep and r.random() < self.rich * 0.4:
            # (only one slot may mention variables: values grow linearly at most)
            n = r.randrange(2, 4)
            free = r.randrange(0, n)
            pieces = [r.choice(["", "<", "é", " "])]
            for i in range(n):
                if i == free:
                    e = self.expr(env, STR, d + 1)
                elif r.random() < 0.5:
                    e = self.istr([r.choice(["[", ""]), self.str_(r.choice(STRS)), r.choice(["]", "é"])])
                else:
                    e = self.str_(r.choice(STRS))
                pieces += [e, r.choice(["", ">", "-", "€"])]
            return self.istr(pieces)
        if ty == INT:
            c = r.random()
            if deep and c < 0.35:
                op = r.choice(["+", "-", "*", "+", "-", "/", "%"])
                if op in "/%" and r.random() < 0.9:      # (a zero divisor ends the run: keep it rare)
                    return self.binop(op, self.expr(env, INT, d + 1), self.int_(r.choice([1, 2, 3, 5, -2, 7])))
                return self.binop(op, self.expr(env, INT, d + 1), self.expr(env, INT, d + 1))
            if deep and c < 0.45 and self.vars_of(env, LIST):
                return self.index(self.var(r.choice(self.vars_of(env, LIST))), self.int_(r.randrange(0, 3)))
            if deep and c < 0.5:
                return self.call(self.prop(self.expr(env, STR, d + 1), "len", True), [])
            return self.int_(r.randrange(-3, 12))
        if ty == BOOL:
            c = r.random()
            if deep and c < 0.3:
                op = r.choice(["<", "<=", ">", ">=", "==", "!="])
                return self.binop(op, self.expr(env, INT, d + 1), self.expr(env, INT, d + 1))
            if deep and c < 0.45:
                return self.binop(r.choice(["&&", "||"]), self.expr(env, BOOL, d + 1), self.expr(env, BOOL, d + 1))
            if deep and c < 0.55:
                t2 = r.choice([STR, LIST, OBJ])
                return self.binop(r.choice(["==", "!="]), self.expr(env, t2, d + 1), self.expr(env, t2, d + 1))
            if deep and c < 0.6 and len(self.vars_of(env, LIST)) >= 1:
                a = r.choice(self.vars_of(env, LIST))
                b = r.choice(self.vars_of(env, LIST))
                return self.binop(r.choice(["===", "!=="]), self.var(a), self.var(b))
            return self.bool_(r.random() < 0.5)
        if ty == STR:
            c = r.random()
            if deep and c < 0.25:
                # (one operand is always a literal: values grow linearly at most)
                return self.binop("+", self.expr(env, STR, d + 1), self.str_(r.choice(STRS)))
            if deep and c < 0.35:
                s = self.expr(env, STR, d + 1)
                return {"t": "rindex", "loc": self.loc(), "e": s, "start": self.int_(0),
                        "end": {"t": "none"} if r.random() < 0.5 else self.int_(r.randrange(0, 2))}
            if deep and c < 0.45:
                return {"t": "istr", "loc": self.loc(),
                        "parts": [{"t": "lit", "s": list(r.choice(STRS).encode())},
                                  {"t": "slot", "off": 0, "e": self.expr(env, STR, d + 2)},
                                  {"t": "lit", "s": list(r.choice(["", "!", "é"]).encode())}]}
            if deep and c < 0.5:
                return self.call(self.prop(self.expr(env, r.choice([INT, LIST, STR, BOOL]), d + 1), "type", True), [])
            return self.str_(r.choice(STRS))
        if ty == LIST:
            c = r.random()
            if deep and c < 0.2:
                return self.binop("+", self.expr(env, LIST, d + 1),
                                  self.list_([self.int_(r.randrange(0, 9)) for _ in range(r.randrange(0, 3))]))
            if deep and c < 0.3:
                return {"t": "range", "loc": self.loc(), "start": self.int_(r.randrange(0, 3)),
                        "end": self.int_(r.randrange(0, 5))}
            if deep and c < 0.4:
                return {"t": "rindex", "loc": self.loc(), "e": self.expr(env, LIST, d + 1),
                        "start": {"t": "none"} if r.random() < 0.5 else self.int_(r.randrange(0, 2)),
                        "end": {"t": "none"}}
            if deep and c < 0.5 and self.vars_of(env, LIST):
                return self.list_([self.expr(env, INT, d + 1), self.var(r.choice(self.vars_of(env, LIST)))],
                                  [False, True])
            return self.list_([self.expr(env, INT, d + 1) for _ in range(r.randrange(0, 4))])
        if ty == OBJ:
            ks = r.sample(KEYS, r.randrange(0, 4))
            o = self.obj([(k, self.expr(env, r.choice([INT, STR, LIST]), d + 1)) for k in ks])
            if self.vars_of(env, OBJ) and r.random() < 0.3:
                o["props"].insert(r.randrange(0, len(o["props"]) + 1),
                                  {"t": "single", "e": self.var(r.choice(self.vars_of(env, OBJ))),
                                   "spread": True, "collect": False})
            return o
        return self.null()

    # -- statements
    def block(self, env, depth, in_loop, in_fn, n=None, local=()):
        env = dict(env)
        env[LOCAL] = set(local)
        out = []
        for _ in range(n if n is not None else self.r.randrange(1, 5)):
            if self.budget <= 0:
                break
            out += self.stmt(env, depth, in_loop, in_fn)
        if not out:
            out = [self.print_(self.int_(0))]
        return out

    def stmt(self, env, depth, in_loop, in_fn):
        r = self.r
        self.budget -= 1
        c = r.random()
        deep = depth < self.max_depth
        if r.random() < self.rich:
            st = self.rich_stmt(env, depth, in_loop, in_fn)
            if st:
                return st
        if c < 0.2:
            ty = r.choice([INT, INT, BOOL, STR, LIST, OBJ])
            n = self.fresh()
            e = self.expr(env, ty)
            env[n] = ty
            env[LOCAL].add(n)
            return [{"t": "declare", "lhs": self.var(n), "rhs": e}]
        names = [n for n in env if n != LOCAL]
        if c < 0.3 and names:
            n = r.choice(names)
            if env[n] != FN and n not in self.protected:
                return [{"t": "assign", "lhs": self.var(n), "rhs": self.expr(env, env[n])}]
        if c < 0.38 and names:
            n = r.choice(names)
            if env[n] in (INT, STR, LIST) and n not in self.protected:
                op = r.choice(["+", "-", "*"]) if env[n] == INT else "+"
                # (strings and lists grow by a literal only: `v += v` in a loop doubles the value every time)
                rhs = self.expr(env, INT) if env[n] == INT else \
                    self.str_(r.choice(STRS)) if env[n] == STR else \
                    self.list_([self.int_(r.randrange(0, 9)) for _ in range(r.randrange(0, 3))])
                return [{"t": "opassign", "lhs": self.var(n), "op": op, "oploc": self.loc(), "rhs": rhs}]
        if c < 0.52:
            ty = r.choice([INT, BOOL, STR, LIST, OBJ])
            return [self.print_(self.expr(env, ty))]
        if c < 0.6 and deep:
            br = [{"cond": self.expr(env, BOOL), "body": self.block(env, depth + 1, in_loop, in_fn)}]
            if r.random() < 0.3:
                br.append({"cond": self.expr(env, BOOL), "body": self.block(env, depth + 1, in_loop, in_fn)})
            els = {"some": False, "body": []}
            if r.random() < 0.5:
                els = {"some": True, "body": self.block(env, depth + 1, in_loop, in_fn)}
            return [{"t": "if", "branches": br, "els": els}]
        if c < 0.66 and deep:
            i = self.fresh("i")
            body = [{"t": "opassign", "lhs": self.var(i), "op": "+", "oploc": self.loc(), "rhs": self.int_(1)}]
            env2 = dict(env)
            env2[i] = INT
            self.protected.add(i)
            env[LOCAL].add(i)
            env[i] = INT
            body += self.block(env2, depth + 1, True, in_fn)
            return [{"t": "declare", "lhs": self.var(i), "rhs": self.int_(0)},
                    {"t": "while", "cond": self.binop("<", self.var(i), self.int_(r.randrange(1, 4))), "body": body}]
        if c < 0.74 and deep:
            ty = r.choice([LIST, STR, OBJ])
            k, v = self.fresh("k"), self.fresh("e")
            env2 = dict(env)
            env2[k] = INT if ty != OBJ else STR
            env2[v] = INT if ty == LIST else (STR if ty == STR else INT)
            lhs = self.pat([self.var(k), self.var(v)]) if r.random() < 0.7 else self.var(self.fresh("p"))
            if lhs["t"] == "var":
                env2 = dict(env)
            return [{"t": "for", "lhs": lhs, "iter": self.expr(env, ty),
                     "body": self.block(env2, depth + 1, True, in_fn)}]
        if c < 0.8 and deep:
            f = self.fresh("f")
            ps = [self.fresh("a") for _ in range(r.randrange(0, 3))]
            env2 = dict(env)
            for p in ps:
                env2[p] = INT
            body = self.block(env2, depth + 1, False, True, local=ps)
            if r.random() < 0.7:
                body.append({"t": "return", "loc": self.loc(), "e": self.expr(env2, INT)})
            env[f] = FN
            env[LOCAL].add(f)
            self.fns.append((f, len(ps)))
            st = {"t": "fn", "name": self.name(f), "nameloc": self.loc(), "params": [self.var(p) for p in ps],
                  "collect": False, "body": body}
            nargs = len(ps) if r.random() > self.err_rate else len(ps) + 1
            return [st, self.print_(self.call(self.var(f), [self.expr(env, INT) for _ in range(nargs)]))]
        if c < 0.84 and deep:
            return [{"t": "block", "body": self.block(env, depth + 1, in_loop, in_fn)}]
        if c < 0.87 and in_loop:
            return [{"t": "if", "branches": [{"cond": self.expr(env, BOOL),
                                              "body": [{"t": r.choice(["break", "continue"]), "loc": self.loc()}]}],
                     "els": {"some": False, "body": []}}]
        if c < 0.9 and in_fn:
            return [{"t": "if", "branches": [{"cond": self.expr(env, BOOL),
                                              "body": [{"t": "return", "loc": self.loc(), "e": self.expr(env, INT)}]}],
                     "els": {"some": False, "body": []}}]
        if c < 0.94 and self.vars_of(env, LIST):
            n = r.choice(self.vars_of(env, LIST))
            return [{"t": "assign", "lhs": self.index(self.var(n), self.int_(r.randrange(0, 2))),
                     "rhs": self.expr(env, INT)}]
        if c < 0.97 and self.vars_of(env, OBJ):
            n = r.choice(self.vars_of(env, OBJ))
            k = r.choice(KEYS)
            tgt = self.prop(self.var(n), k) if k.isidentifier() and r.random() < 0.5 \
                else self.index(self.var(n), self.str_(k))
            return [{"t": "assign", "lhs": tgt, "rhs": self.expr(env, INT)}]
        if self.vars_of(env, LIST):
            a, b = self.fresh(), self.fresh()
            env[a] = INT
            env[b] = LIST
            env[LOCAL].update([a, b])
            return [{"t": "declare", "lhs": self.pat([self.var(a), self.var(b)], collect=True),
                     "rhs": self.var(r.choice(self.vars_of(env, LIST)))}]
        return [self.print_(self.expr(env, INT))]

    def rich_stmt(self, env, depth, in_loop, in_fn):
        """closures, methods and `this`, shadowing, several targets in one assignment, aliasing,
        op-assignment and range assignment through index / property, spread calls, object patterns"""
        r = self.r
        k = r.randrange(0, 16)
        local = env[LOCAL]
        ints = [n for n in self.vars_of(env, INT) if n not in self.protected]
        lists = self.vars_of(env, LIST)
        if k == 0:                                   # shadow an outer name in this block
            outer = [n for n in env if n != LOCAL and n not in local and n not in self.protected and env[n] != FN]
            if outer:
                n = r.choice(outer)
                ty = r.choice([INT, STR, LIST, env[n]])
                e = self.expr(env, ty)
                env[n] = ty
                local.add(n)
                return [{"t": "declare", "lhs": self.var(n), "rhs": e}, self.print_(self.var(n))]
        if k == 1:                                   # a counter closure
            n = self.fresh("ctr")
            e = self.expr(env, CLO)
            env[n] = CLO
            local.add(n)
            return [{"t": "declare", "lhs": self.var(n), "rhs": e}, self.print_(self.call(self.var(n), []))]
        if k == 2:                                   # an object with methods
            n = self.fresh("m")
            e = self.expr(env, MOBJ)
            env[n] = MOBJ
            local.add(n)
            return [{"t": "declare", "lhs": self.var(n), "rhs": e}]
        if k == 3 and self.vars_of(env, MOBJ):       # a method moved into a variable, re-assigned, called bare
            ms = self.vars_of(env, MOBJ)
            g = self.fresh("g")
            a, b = r.choice(ms), r.choice(ms)
            how = r.choice(["prop", "index"])
            rd = (lambda m: self.prop(self.var(m), "get")) if how == "prop" else \
                (lambda m: self.index(self.var(m), self.str_("get")))
            out = [{"t": "declare", "lhs": self.var(g), "rhs": rd(a)}, self.print_(self.call(self.var(g), []))]
            if r.random() < 0.6:
                out += [{"t": "assign", "lhs": self.var(g), "rhs": rd(b)}, self.print_(self.call(self.var(g), []))]
            if r.random() < 0.4:
                out += [{"t": "assign", "lhs": self.prop(self.var(b), "get"), "rhs": self.prop(self.var(a), "get")},
                        self.print_(self.call(self.prop(self.var(b), "get"), []))]
            return out
        if k == 4 and len(ints) >= 2:                # several targets, possibly in different scopes
            a, b = r.sample(ints, 2)
            if r.random() < 0.6:
                return [{"t": "assign", "lhs": self.pat([self.var(a), self.var(b)]),
                         "rhs": self.list_([self.var(b), self.binop("+", self.var(a), self.int_(1))])}]
            return [{"t": "assign", "lhs": self.obj([("p", self.var(a)), ("q", self.var(b))]),
                     "rhs": self.obj([("q", self.var(a)), ("p", self.var(b))])}]
        if k == 5 and lists:                         # aliasing through a container
            n, ys = r.choice(lists), self.fresh("ys")
            env[ys] = "nested"                       # (never chosen again: no doubling)
            local.add(ys)
            return [{"t": "declare", "lhs": self.var(ys), "rhs": self.list_([self.var(n), self.var(n)])},
                    {"t": "assign", "lhs": self.index(self.index(self.var(ys), self.int_(0)), self.int_(0)),
                     "rhs": self.expr(env, INT)},
                    self.print_(self.var(n)),
                    self.print_(self.binop("===", self.index(self.var(ys), self.int_(1)), self.var(n)))]
        if k == 6 and lists:                         # op-assignment through an index
            n = r.choice(lists)
            return [self.opassign(self.index(self.var(n), self.int_(r.randrange(0, 2))), r.choice(["+", "-", "*"]),
                                  self.expr(env, INT))]
        if k == 7 and self.vars_of(env, MOBJ):       # op-assignment through a property
            m = r.choice(self.vars_of(env, MOBJ))
            tgt = self.prop(self.var(m), "v") if r.random() < 0.5 else self.index(self.var(m), self.str_("v"))
            return [self.opassign(tgt, r.choice(["+", "-", "*"]), self.expr(env, INT))]
        if k == 8 and lists:                         # range assignment
            n = r.choice(lists)
            a = r.randrange(0, 2)
            b = a + r.randrange(0, 3)
            return [{"t": "assign", "lhs": {"t": "rindex", "loc": self.loc(), "e": self.var(n), "start": self.int_(a),
                                            "end": self.int_(b)},
                     "rhs": self.list_([self.expr(env, INT) for _ in range(b - a)])}]
        if k == 9 and self.fns:                      # a call with a spread argument list
            f, arity = r.choice(self.fns)
            if f in env:
                args = self.list_([self.expr(env, INT) for _ in range(arity)])
                c = self.call(self.var(f), [args])
                c["args"][0]["spread"] = True
                return [self.print_(c)]
        if k == 10:                                  # object pattern with rest
            a, rest = self.fresh(), self.fresh("rest")
            env[a] = INT
            env[rest] = OBJ
            local.update([a, rest])
            src = self.obj([("a", self.expr(env, INT)), ("b", self.expr(env, STR)), ("k k", self.int_(3))])
            pat = {"t": "object", "loc": self.loc(),
                   "props": [{"t": "pair", "name": self.str_("a"), "value": self.var(a)},
                             {"t": "single", "e": self.var(rest), "spread": False, "collect": True}]}
            return [{"t": "declare", "lhs": pat, "rhs": src}]
        if k == 11 and ints:                         # a closure over a variable, stored for later
            v = r.choice(ints)
            return [self.opassign(self.var("cbs__"), "+",
                                  self.list_([self.func([], [self.opassign(self.var(v), "+", self.int_(1)),
                                                             self.ret(self.var(v))])]))]
        if k == 12:                                  # call every stored closure
            g = self.fresh("g")
            return [{"t": "for", "lhs": self.pat([self.var("_"), self.var(g)]), "iter": self.var("cbs__"),
                     "body": [self.print_(self.call(self.var(g), []))]}]
        if k == 13 and depth < self.max_depth:       # for over a range with a closure per iteration
            kk, v = self.fresh("k"), self.fresh("e")
            env2 = dict(env)
            env2[kk] = INT
            env2[v] = INT
            return [{"t": "for", "lhs": self.pat([self.var(kk), self.var(v)]),
                     "iter": {"t": "range", "loc": self.loc(), "start": self.int_(r.randrange(0, 3)),
                              "end": self.int_(r.randrange(2, 5))},
                     "body": self.block(env2, depth + 1, True, in_fn, local=[kk, v])}]
        if k == 14:                                  # an anonymous function called in place
            p = self.fresh("a")
            env2 = dict(env)
            env2[p] = INT
            body = self.block(env2, depth + 1, False, True, local=[p]) + [self.ret(self.expr(env2, INT))]
            return [self.print_(self.call(self.func([p], body), [self.expr(env, INT)]))]
        if k == 15 and self.vars_of(env, OBJ):       # spread of an object into a literal, then ==
            o = r.choice(self.vars_of(env, OBJ))
            n = self.fresh("o")
            env[n] = OBJ
            local.add(n)
            lit = self.obj([("a", self.expr(env, INT))])
            lit["props"].insert(r.randrange(0, 2), {"t": "single", "e": self.var(o), "spread": True, "collect": False})
            return [{"t": "declare", "lhs": self.var(n), "rhs": lit},
                    self.print_(self.binop("==", self.var(n), self.var(o)))]
        return None

    def program(self):
        body = [{"t": "declare", "lhs": self.var("cbs__"), "rhs": self.list_([])}] if self.rich else []
        env = {LOCAL: set()}
        while self.budget > 0:
            body += self.stmt(env, 0, False, False)
        return body


def program(seed, **kw):
    return Gen(seed, **kw).program()
