"""Renders a program (the AST encoding shared by the specification and the
`seed_verif` AST dump) to Seed source text -- the inverse of the grammar --
and records, by its own arithmetic, the (line, column) at which every anchor
token was written.

A program is first flattened to a token list; every token carries the `loc`
keys (AST positions) anchored at it.  A *layout* then decides what goes
between two tokens: nothing, spaces, tabs, a comment and line break, a line
break (only where the language continues the statement), and how each
statement is terminated (newline, `;`, both, blank lines).  Positions are
computed while writing: line = newlines written + 1, column = characters
written since the last newline + 1.
"""
import random

TIER = {
    "&&": 2, "||": 2,
    "+": 3, "-": 3,
    "*": 4, "/": 4, "%": 4, "==": 4, "!=": 4, "<": 4, "<=": 4, ">": 4, ">=": 4,
    "===": 4, "!==": 4,
}

# A line break directly after one of these continues the statement (C09).
CONTINUATION = {"+", "-", "*", "/", "%", "==", "!=", "<", "<=", ">", ">=", "&&", "||",
                "=", ":=", "+=", "-=", "*=", "/=", "%=", ",", ".", "(", "[", "{"}


class Tok:
    __slots__ = ("text", "tags", "kind", "tight_before", "tight_after")

    def __init__(self, text, kind="sym"):
        self.text = text          # str
        self.tags = []            # loc keys anchored here
        self.kind = kind          # word | int | str | sym | end
        self.tight_before = False
        self.tight_after = False


def key(loc):
    return tuple(loc) if isinstance(loc, list) else loc


def level(e):
    t = e["t"]
    if t == "range":
        return 1
    if t == "binop":
        return TIER[e["op"]]
    if t in ("call", "index", "rindex", "prop"):
        return 5
    return 6


def esc_bytes(bs, rnd=None, hex_prob=0.0, interp=False):
    """A string literal body for the (valid UTF-8) bytes bs."""
    s = bytes(bs).decode("utf-8")
    out = []
    for ch in s:
        o = ord(ch)
        if ch == "\\":
            out.append("\\\\")
        elif ch == '"':
            out.append('\\"')
        elif ch == "$":
            out.append("\\$")
        elif ch == "\n":
            out.append("\\n")
        elif ch == "\r":
            out.append("\\r")
        elif o < 0x100 and rnd is not None and rnd.random() < hex_prob:
            out.append("\\x%02x" % o)
        else:
            out.append(ch)
    return "".join(out)


class Flattener:
    """AST -> token list."""

    def __init__(self, rnd=None, hex_prob=0.0, underscore_prob=0.0, extra_parens=0.0, slot_wild=0.0):
        self.rnd = rnd
        self.hex_prob = hex_prob
        self.underscore_prob = underscore_prob
        self.extra_parens = extra_parens
        self.slot_wild = slot_wild
        self.slot_pos = {}     # positions of nodes inside interpolation slots (slot-relative)

    # ---- helpers
    def w(self, text):
        return Tok(text, "word")

    def s(self, text):
        return Tok(text, "sym")

    def int_text(self, n):
        t = str(abs(n))
        if self.rnd is not None and self.underscore_prob and len(t) > 1 \
                and self.rnd.random() < self.underscore_prob:
            i = self.rnd.randrange(1, len(t))
            t = t[:i] + "_" + t[i:]
        return t

    # ---- expressions
    def expr(self, e, minlevel=1):
        toks = self.raw(e)
        wrap = level(e) < minlevel
        n = 0
        if self.rnd is not None and self.extra_parens and self.rnd.random() < self.extra_parens:
            n = 1
        if wrap or n:
            for _ in range((1 if wrap else 0) + n):
                o, c = self.s("("), self.s(")")
                o.tight_after = True
                c.tight_before = True
                toks = [o] + toks + [c]
        toks[0].tags.append(key(e["loc"]))
        return toks

    def items(self, items, collect=False):
        toks = []
        for i, it in enumerate(items):
            if i:
                cm = self.s(",")
                cm.tight_before = True
                toks.append(cm)
            if collect and i == len(items) - 1:
                d = self.s("..")
                d.tight_after = True
                toks.append(d)
            toks += self.expr(it["e"])
            if it["spread"]:
                d = self.s("..")
                d.tight_before = True
                toks.append(d)
        return toks

    def params(self, params, collect):
        toks = []
        for i, p in enumerate(params):
            if i:
                cm = self.s(",")
                cm.tight_before = True
                toks.append(cm)
            if collect and i == len(params) - 1:
                d = self.s("..")
                d.tight_after = True
                toks.append(d)
            toks += self.expr(p)
        return toks

    def bracket(self, o, inner, c):
        a, b = self.s(o), self.s(c)
        a.tight_after = True
        b.tight_before = True
        return [a] + inner + [b]

    def raw(self, e):
        t = e["t"]
        if t == "null":
            return [self.w("null")]
        if t == "bool":
            return [self.w("true" if e["b"] else "false")]
        if t == "int":
            n = e["n"]
            if n < 0:
                m = self.s("-")
                m.tight_after = True
                return [m, Tok(self.int_text(n), "int")]
            return [Tok(self.int_text(n), "int")]
        if t == "str":
            return [Tok('"' + esc_bytes(e["s"], self.rnd, self.hex_prob) + '"', "str")]
        if t == "istr":
            tk = Tok(self.istr(e), "str")
            tk.tags.append(("tok",) + tuple(e["loc"]))      # where the literal itself starts (slots count from there)
            return [tk]
        if t == "var":
            return [self.w(bytes(e["name"]).decode())]
        if t == "binop":
            tier = TIER[e["op"]]
            op = self.s(e["op"])
            op.tags.append(key(e["oploc"]))
            return self.expr(e["l"], tier) + [op] + self.expr(e["r"], tier + 1)
        if t == "range":
            return self.expr(e["start"], 1) + [self.s("..")] + self.expr(e["end"], 2)
        if t == "list":
            return self.bracket("[", self.items(e["items"], e["collect"]), "]")
        if t == "index":
            base = self.expr(e["e"], 5)
            br = self.bracket("[", self.expr(e["i"]), "]")
            br[0].tight_before = True
            return base + br
        if t == "rindex":
            base = self.expr(e["e"], 5)
            inner = []
            if e["start"]["t"] != "none":
                inner += self.expr(e["start"])
            col = self.s(":")
            col.tight_before = col.tight_after = True
            inner.append(col)
            if e["end"]["t"] != "none":
                inner += self.expr(e["end"])
            br = self.bracket("[", inner, "]")
            br[0].tight_before = True
            return base + br
        if t == "object":
            inner = []
            for i, p in enumerate(e["props"]):
                if i:
                    cm = self.s(",")
                    cm.tight_before = True
                    inner.append(cm)
                if p["t"] == "pair":
                    col = self.s(":")
                    col.tight_before = True
                    inner += self.expr(p["name"]) + [col] + self.expr(p["value"])
                else:
                    if p["collect"]:
                        d = self.s("..")
                        d.tight_after = True
                        inner.append(d)
                    inner += self.expr(p["e"])
                    if p["spread"]:
                        d = self.s("..")
                        d.tight_before = True
                        inner.append(d)
            return self.bracket("{", inner, "}")
        if t == "prop":
            base = self.expr(e["e"], 5)
            d = self.s("->" if e["tp"] else ".")
            d.tight_before = d.tight_after = True
            return base + [d, self.w(bytes(e["name"]).decode())]
        if t == "func":
            ps = self.bracket("(", self.params(e["params"], e["collect"]), ")")
            return [self.w("fn")] + ps + self.block(e["body"])
        if t == "call":
            base = self.expr(e["f"], 5)
            br = self.bracket("(", self.items(e["args"]), ")")
            br[0].tight_before = True
            return base + br
        raise ValueError("unknown expr " + t)

    def istr(self, e):
        out = ['$"']
        dec_off = 0            # offset of the next piece in the unescaped string, in characters
        for pidx, p in enumerate(e["parts"]):
            if p["t"] == "lit":
                out.append(esc_bytes(p["s"], self.rnd, self.hex_prob))
                dec_off += len(bytes(p["s"]).decode("utf-8"))
            elif p["t"] == "slot":
                sub = Flattener()
                toks = sub.expr(p["e"])
                # a slot may span lines (a break after a continuation token): positions inside it are counted
                # from the start of the slot
                lay = Layout(None)
                if self.rnd is not None and self.slot_wild and self.rnd.random() < self.slot_wild \
                        and not any(tk.kind == "end" for tk in toks):
                    lay = Layout(random.Random(self.rnd.random()), wild=0.9, comments=False, header=False)
                text, pos = lay.write(toks)
                self.slot_pos.update(pos)
                self.slot_pos.update(sub.slot_pos)
                # where the slot is: in the unescaped string, and in the source text relative to the literal
                # (line offset, 0-based column of the `$` in that line / in the literal)
                so_far = "".join(out)
                key = (tuple(e["loc"]), pidx + 1)
                self.slot_pos[("off",) + key] = dec_off
                self.slot_pos[("rel",) + key] = (so_far.count("\n"), len(so_far) - (so_far.rfind("\n") + 1))
                dec_off += len(text) + 3
                out.append("${" + text + "}")
            else:
                raise ValueError("cannot render " + p["t"])
        out.append('"')
        return "".join(out)

    # ---- statements
    def end(self):
        return Tok("", "end")

    def block(self, body):
        o, c = self.s("{"), self.s("}")
        toks = [o]
        for st in body:
            toks += self.stmt(st) + [self.end()]
        toks.append(c)
        return toks

    def stmt(self, st):
        t = st["t"]
        if t == "raw":          # a verbatim token (used to plant syntax / lexical errors)
            k = Tok(st["text"], st.get("kind", "sym"))
            k.tags.append(key(st["loc"]))
            return [k]
        if t == "block":
            return self.block(st["body"])
        if t == "expr":
            return self.expr(st["e"])
        if t in ("declare", "assign"):
            return self.expr(st["lhs"]) + [self.s(":=" if t == "declare" else "=")] + self.expr(st["rhs"])
        if t == "opassign":
            op = self.s(st["op"] + "=")
            op.tags.append(key(st["oploc"]))
            return self.expr(st["lhs"]) + [op] + self.expr(st["rhs"])
        if t == "if":
            toks = []
            for i, br in enumerate(st["branches"]):
                if i:
                    toks.append(self.w("else"))
                toks += [self.w("if")] + self.expr(br["cond"]) + self.block(br["body"])
            if st["els"]["some"]:
                toks += [self.w("else")] + self.block(st["els"]["body"])
            return toks
        if t == "while":
            return [self.w("while")] + self.expr(st["cond"]) + self.block(st["body"])
        if t == "for":
            return [self.w("for")] + self.expr(st["lhs"]) + [self.w("in")] + self.expr(st["iter"]) \
                + self.block(st["body"])
        if t in ("break", "continue"):
            k = self.w(t)
            k.tags.append(key(st["loc"]))
            return [k]
        if t == "return":
            k = self.w("return")
            k.tags.append(key(st["loc"]))
            return [k] + self.expr(st["e"])
        if t == "fn":
            nm = self.w(bytes(st["name"]).decode())
            nm.tags.append(key(st["nameloc"]))
            ps = self.bracket("(", self.params(st["params"], st["collect"]), ")")
            ps[0].tight_before = True
            return [self.w("fn"), nm] + ps + self.block(st["body"])
        raise ValueError("unknown stmt " + t)

    def program(self, body):
        toks = []
        for st in body:
            toks += self.stmt(st) + [self.end()]
        return toks


COMMENT_TEXTS = ["", " c", " a é 世 # ;", "#", " if x { \"", "\t$", " a\r+ 5", "\r", " \u2028x\u2029 y", "\u0085 \u000b"]


class Layout:
    """Writes a token list. rnd=None gives the canonical layout: one statement
    per line, four-space indentation, single spaces."""

    def __init__(self, rnd, wild=0.3, comments=True, header=True):
        self.rnd = rnd
        self.wild = wild
        self.comments = comments       # (no comments inside interpolation slots: their text may hold a quote)
        self.header = header

    def write(self, toks):
        rnd = self.rnd
        out = []
        line, col = 1, 1
        pos = {}
        depth = 0

        def emit(s):
            nonlocal line, col
            out.append(s)
            for ch in s:
                if ch == "\n":
                    line += 1
                    col = 1
                else:
                    col += 1

        def blank_noise():
            # whitespace / comments that never end or join anything
            if rnd is None:
                return
            r = rnd.random()
            if r < self.wild * 0.3:
                emit(rnd.choice([" ", "  ", "\t", " \t ", "\r"]))

        # the file may start with comment lines (an interpreter line among them): they are lines like any other
        if rnd is not None and self.header and rnd.random() < 0.3:
            emit(rnd.choice(["#!/usr/bin/env seed\n", "#! x\n", "# é 世\n\n", "\n", "#!\n#!/x\n", "#!/usr/bin/seed -x\r\n", "\r\n", "\r\n\r\n", "# a\rb\n"]))
        prev = None
        at_line_start = True
        n = len(toks)
        for i, t in enumerate(toks):
            if t.kind == "end":
                # statement terminator(s)
                if rnd is None:
                    emit("\n")
                else:
                    r = rnd.random()
                    if r < 0.55:
                        emit("\n")
                    elif r < 0.7:
                        emit(";")
                        if rnd.random() < 0.7:
                            emit("\n")
                        else:
                            emit(" ")
                    elif r < 0.8:
                        emit(" #" + rnd.choice(COMMENT_TEXTS) + "\n")
                    elif r < 0.9:
                        emit("\n" + rnd.choice(["\n", " \n", "\t\n", ";\n", "\r\n", "# x\n"]))
                    else:
                        emit(";;" if rnd.random() < 0.3 else "\r\n")
                at_line_start = out[-1].endswith("\n") if out else True
                prev = t
                continue
            if t.text == "}":
                depth -= 1
            # separator before t
            if at_line_start:
                if rnd is None:
                    emit("    " * depth)
                else:
                    emit(rnd.choice(["", "    " * depth, "\t" * depth, " " * rnd.randrange(0, 6)]))
            elif prev is not None and prev.kind != "end":
                need = self.need_space(prev, t)
                tight = prev.tight_after or t.tight_before
                if rnd is None:
                    if not tight or need:
                        emit(" ")
                else:
                    r = rnd.random()
                    if prev.text in CONTINUATION and r < self.wild * 0.5:
                        # a line break after a continuation token
                        emit(rnd.choice(["\n", " \n", " # k" + rnd.choice(COMMENT_TEXTS) + "\n",
                                         "\n\n", "\r\n"] if self.comments else ["\n", " \n", "\n\n", "\r\n"]))
                        emit(" " * rnd.randrange(0, 9))
                    elif need or r < 0.6 and not tight or r < self.wild * 0.4:
                        emit(rnd.choice([" ", " ", " ", "  ", "\t", " \r "]))
            for tag in t.tags:
                pos[tag] = (line, col)
            emit(t.text)
            if t.text == "{":
                depth += 1
            at_line_start = False
            prev = t
        return "".join(out), pos

    @staticmethod
    def need_space(a, b):
        """Must two adjacent tokens be separated to stay two tokens?"""
        x, y = a.text, b.text
        if a.kind in ("word", "int") and b.kind in ("word", "int"):
            return True
        if a.kind == "sym" and b.kind == "sym":
            # any pair whose concatenation could lex differently
            return (x + y)[:2] in {"==", "!=", ":=", "->", "/=", "..", ">=", "<=", "%=", "*=",
                                   "-=", "+=", "&&", "||"} or (x[-1:] + y[:1]) in {
                "==", "!=", ":=", "->", "/=", "..", ">=", "<=", "%=", "*=", "-=", "+=", "&&", "||"}
        if a.kind == "sym" and b.kind == "str" and b.text.startswith("$"):
            return False
        return False


def render(body, seed=None, **opts):
    """Returns (text, pos, slot_pos). seed=None: canonical layout."""
    rnd = random.Random(seed) if seed is not None else None
    fl = Flattener(rnd, hex_prob=opts.get("hex_prob", 0.0),
                   underscore_prob=opts.get("underscore_prob", 0.0),
                   extra_parens=opts.get("extra_parens", 0.0), slot_wild=opts.get("slot_wild", 0.25))
    toks = fl.program(body)
    text, pos = Layout(rnd, wild=opts.get("wild", 0.3)).write(toks)
    return text, pos, fl.slot_pos
