"""Specification -> implementation: replays behaviours TLC generated.

For every program TLC enumerated (PROG line) with its predicted behaviour
(OUTCOME line): render it to source text (one or several layouts), parse it
with the hooked build and require the real parser's tree -- with the real
positions of every node -- to equal the generated tree placed at the
renderer's recorded positions, run the *unhooked* interpreter on it and
require stdout, stderr and the exit status to be byte-for-byte what the
specification predicts.
"""
import copy
import json
import os

import seedverif as sv
import render as R


def join_runs(lines):
    """PROG / OUTCOME lines of one TLC run -> list of (key, body, outcome|None)."""
    progs = {}
    outs = {}
    for o in sv.tagged(lines, "PROG"):
        progs[json.dumps(o["pi"])] = o["body"]
    for o in sv.tagged(lines, "OUTCOME"):
        outs[json.dumps(o["pi"])] = o
    return [(k, progs[k], outs.get(k)) for k in sorted(progs)]


class Placed:
    """A generated program rendered at concrete positions."""

    def __init__(self, body, seed=None, **opts):
        self.body = body
        self.text, self.pos, self.slot_pos = R.render(body, seed, **opts)
        # (istr path, part index) -> character offset of the slot in the unescaped string
        self.offs = {k[1:]: v for k, v in self.slot_pos.items() if k and k[0] == "off"}
        # ... -> where the renderer wrote the slot, relative to the literal (line offset, column)
        self.rel = {k[1:]: v for k, v in self.slot_pos.items() if k and k[0] == "rel"}

    def loc(self, loc):
        """Path position -> (line, col), for the diagnostics."""
        if isinstance(loc, dict):          # interpolation slot: where its expression starts in the source
            l, c = self.tokpos(tuple(loc["base"]))
            dl, dc = self.rel[(tuple(loc["base"]), loc["idx"])]
            return (l, c + dc + 2) if dl == 0 else (l + dl, dc + 1 + 2)
        t = tuple(loc)
        if t == (0, 0):
            return 0, 0
        if t in self.pos:
            return self.pos[t]
        return self.slot_pos[t]

    def tokpos(self, t):
        """Where the interpolated literal with path t starts (its own `$`, not an enclosing parenthesis)."""
        k = ("tok",) + t
        return self.pos[k] if k in self.pos else self.slot_pos[k]

    def relocated(self):
        """The generated tree with every path replaced by the recorded position."""
        def go(node, in_slot):
            if isinstance(node, dict):
                out = {}
                for kx, v in node.items():
                    if kx in ("loc", "oploc", "nameloc"):
                        t = tuple(v)
                        p = self.slot_pos[t] if in_slot else self.pos[t]
                        out[kx] = [p[0], p[1]]
                    elif kx == "parts":
                        parts = []
                        for i, p in enumerate(v):
                            if p["t"] == "slot":
                                key = (tuple(node["loc"]), i + 1)
                                l0, c0 = self.tokpos(tuple(node["loc"]))
                                dl, dc = self.rel[key]
                                parts.append({"t": "slot", "off": self.offs[key],
                                              "sloc": [l0, c0 + dc] if dl == 0 else [l0 + dl, dc + 1],
                                              "e": go(p["e"], True)})
                            else:
                                parts.append(p)
                        out[kx] = parts
                    else:
                        out[kx] = go(v, in_slot)
                return out
            if isinstance(node, list):
                return [go(v, in_slot) for v in node]
            return node
        return go(self.body, False)


def first_diff(a, b, path="$"):
    if type(a) != type(b):
        return "%s: %r vs %r" % (path, a, b)
    if isinstance(a, dict):
        for kx in sorted(set(a) | set(b)):
            if kx not in a or kx not in b:
                return "%s.%s: missing on one side" % (path, kx)
            d = first_diff(a[kx], b[kx], path + "." + kx)
            if d:
                return d
        return None
    if isinstance(a, list):
        if len(a) != len(b):
            return "%s: length %d vs %d" % (path, len(a), len(b))
        for i, (x, y) in enumerate(zip(a, b)):
            d = first_diff(x, y, "%s[%d]" % (path, i))
            if d:
                return d
        return None
    return None if a == b else "%s: %r vs %r" % (path, a, b)


def replay(cases, name, seeds=(None,), render_opts=None, check_ast=True):
    """cases: list of (key, body, outcome). Returns (results, counters).
    A result is a dict for every mismatch found."""
    plain = sv.build(False)
    hooked = sv.build(True) if check_ast else None
    d = sv.scratch("replay-" + name)
    jobs = []
    for i, (key, body, outcome) in enumerate(cases):
        if outcome is None or outcome["status"]["k"] not in ("done", "failed"):
            continue
        for si, seed in enumerate(seeds):
            jobs.append((i, si, seed, key, body, outcome))

    def one(job):
        i, si, seed, key, body, outcome = job
        opts = dict(render_opts or {})
        try:
            pl = Placed(body, None if seed is None else (hash((seed, i)) & 0x7fffffff), **opts)
        except Exception as ex:        # a program the renderer cannot express
            return {"kind": "render-error", "key": key, "error": repr(ex)}
        fname = "p%d_%d.sd" % (i, si)
        with open(os.path.join(d, fname), "wb") as f:
            f.write(pl.text.encode("utf-8"))
        res = {"key": key, "file": fname, "kind": None}
        if check_ast:
            evs, _, hse, _ = sv.dump(hooked, d, fname)
            ast = sv.ast_of(evs)
            if ast is None:
                res.update(kind="parse-rejected", detail=hse.decode(errors="replace"))
                return res
            diff = first_diff(pl.relocated(), ast)
            if diff:
                res.update(kind="ast-mismatch", detail=diff)
                return res
        so, se, code = sv.run_seed(plain, fname, d)
        exp = sv.expected(outcome, fname, pl.loc)
        cr = sv.crashed(se, code)
        if cr:
            res.update(kind="crash", detail=cr,
                       actual={"stdout": so.decode(errors="replace")[-2000:],
                               "stderr": se.decode(errors="replace")[-2000:], "exit": code})
            return res
        form = sv.stderr_form(se, fname, code)
        if form:
            res.update(kind="stderr-form", detail=form,
                       actual={"stdout": so.decode(errors="replace"),
                               "stderr": se.decode(errors="replace"), "exit": code})
            return res
        if not sv.matches(exp, so, se, code):
            res.update(kind="behaviour", expected=sv.show_exp(exp),
                       actual={"stdout": so.decode(errors="replace"),
                               "stderr": se.decode(errors="replace"), "exit": code},
                       crash=sv.crashed(se, code))
        return res

    results = sv.pmap(one, jobs)
    bad = [r for r in results if r["kind"]]
    return bad, {"replayed": len(jobs), "programs": len({j[0] for j in jobs}), "dir": d}
