"""Shared machinery of the Seed verification framework (python3, stdlib only).

 * builds /repo's current working tree twice (guard off / guard on) into
   /verif/work/target-{plain,hooked};
 * runs the real interpreter, one process per script;
 * obtains token / AST dumps from the hooked build;
 * runs TLC on a specification module and collects the lines it prints;
 * turns an OUTCOME of the specification (SeedEval) into the exact stdout,
   stderr and exit status the real interpreter must produce.
"""
import json
import os
import re
import shutil
import subprocess
import sys
import time
from concurrent.futures import ThreadPoolExecutor

ROOT = os.path.dirname(os.path.dirname(os.path.abspath(__file__)))
WORK = os.path.join(ROOT, "work")
SPEC = os.path.join(ROOT, "spec")
REPO = os.environ.get("SEED_REPO", "/repo")
NPROC = os.cpu_count() or 4

INT_MODEL_MAX = 1073741823      # SeedRun's MaxInt (TLC integers are 32-bit)


class ToolError(Exception):
    """The machinery itself failed (build, TLC, timeout): exit status 2."""


def log(*a):
    print(*a, file=sys.stderr, flush=True)


# --------------------------------------------------------------------------
# Building /repo

_built = {}


def build(hooked):
    """cargo build of /repo's working tree; returns the path of the binary."""
    key = "hooked" if hooked else "plain"
    if key in _built:
        return _built[key]
    tdir = os.path.join(WORK, "target-" + key)
    env = dict(os.environ)
    env["CARGO_TARGET_DIR"] = tdir
    env["CARGO_NET_OFFLINE"] = "true"
    if hooked:
        env["RUSTFLAGS"] = "--cfg seed_verif --check-cfg cfg(seed_verif)"
    else:
        env.pop("RUSTFLAGS", None)
    t0 = time.time()
    p = subprocess.run(["cargo", "build", "--offline", "--quiet"], cwd=REPO, env=env,
                       stdout=subprocess.PIPE, stderr=subprocess.STDOUT)
    if p.returncode != 0:
        sys.stdout.write(p.stdout.decode(errors="replace")[-4000:])
        raise ToolError("cargo build (%s) failed" % key)
    exe = os.path.join(tdir, "debug", "seed")
    if not os.path.exists(exe):
        raise ToolError("no binary at " + exe)
    log("[build] %s in %.1fs" % (key, time.time() - t0))
    _built[key] = exe
    return exe


# --------------------------------------------------------------------------
# Running the interpreter

def run_seed(exe, script, cwd, env=None, timeout=20, stdin=subprocess.DEVNULL):
    """Runs `exe script` in cwd. Returns (stdout, stderr, code); code is
    negative for death by signal and None for a timeout."""
    e = {"PATH": "/usr/bin:/bin"} if env is None else env
    try:
        p = subprocess.run([exe, script], cwd=cwd, env=e, stdin=stdin,
                           stdout=subprocess.PIPE, stderr=subprocess.PIPE, timeout=timeout)
        return p.stdout, p.stderr, p.returncode
    except subprocess.TimeoutExpired as ex:
        return ex.stdout or b"", ex.stderr or b"", None


def pmap(fn, items, workers=None):
    with ThreadPoolExecutor(max_workers=workers or NPROC) as ex:
        return list(ex.map(fn, items))


def scratch(name, clean=True):
    d = os.path.join(WORK, name)
    if clean and os.path.isdir(d):
        shutil.rmtree(d)
    os.makedirs(d, exist_ok=True)
    return d


def write_scripts(dirpath, texts, prefix="p"):
    """Writes each text (bytes) to dirpath/<prefix><n>.sd; returns the names."""
    names = []
    for i, t in enumerate(texts):
        n = "%s%d.sd" % (prefix, i)
        with open(os.path.join(dirpath, n), "wb") as f:
            f.write(t)
        names.append(n)
    return names


def dump(hooked_exe, dirpath, name, mode="parse"):
    """Runs the hooked build on dirpath/name; returns the list of trace
    events plus the observable behaviour."""
    tr = os.path.join(dirpath, name + ".trace")
    env = {"PATH": "/usr/bin:/bin", "SEED_VERIF_TRACE": tr}
    if mode:
        env["SEED_VERIF_MODE"] = mode
    so, se, code = run_seed(hooked_exe, name, dirpath, env)
    evs = []
    try:
        with open(tr, "rb") as f:
            for line in f:
                line = line.strip()
                if line:
                    evs.append(json.loads(line))
        os.unlink(tr)
    except FileNotFoundError:
        pass
    return evs, so, se, code


def ast_of(evs):
    for e in evs:
        if e.get("ev") == "ast":
            return e["body"]
    return None


# --------------------------------------------------------------------------
# TLC

def tlc(module, cfg=None, env=None, workers=None, timeout=1800, extra=None, simulate=None,
        metaname=None, coverage=False):
    """Runs TLC on spec/<module>.tla; returns (returncode, list of output lines)."""
    meta = scratch("tlc-" + (metaname or module))
    e = dict(os.environ)
    e["JAVA_TOOL_OPTIONS"] = "-Xss512m"
    if env:
        e.update(env)
    # (the main thread evaluates ASSUMEs: give it a large stack too)
    cmd = ["bash", "-c", 'ulimit -s 4000000 2>/dev/null || ulimit -s unlimited 2>/dev/null; exec "$@"', "tlc-wrap",
           "timeout", str(timeout), "tlc", "-workers", str(workers or NPROC),
           "-metadir", meta, "-cleanup", "-noGenerateSpecTE", "-nowarning"]
    if coverage:
        cmd += ["-coverage", "1"]
    if cfg:
        cmd += ["-config", cfg]
    if simulate:
        cmd += ["-simulate", simulate]
    if extra:
        cmd += extra
    cmd.append(module + ".tla")
    t0 = time.time()
    p = subprocess.run(cmd, cwd=SPEC, env=e, stdout=subprocess.PIPE, stderr=subprocess.STDOUT)
    lines = p.stdout.decode(errors="replace").splitlines()
    shutil.rmtree(meta, ignore_errors=True)
    log("[tlc] %s rc=%d %.1fs" % (module, p.returncode, time.time() - t0))
    return p.returncode, lines


def tlc_stats(lines):
    """states generated / distinct from TLC's summary."""
    st = {"generated": 0, "distinct": 0, "depth": 0}
    for l in lines:
        m = re.match(r"(\d+) states generated, (\d+) distinct states found", l)
        if m:
            st["generated"] = int(m.group(1))
            st["distinct"] = int(m.group(2))
        m = re.match(r"The depth of the complete state graph search is (\d+)", l)
        if m:
            st["depth"] = int(m.group(1))
    return st


def tlc_ok(rc, lines):
    return rc == 0 and any("Model checking completed. No error has been found." in l
                           or "Finished in" in l for l in lines) \
        and not any(l.startswith("Error:") for l in lines)


def tlc_error_text(lines, n=40):
    out = []
    on = False
    for l in lines:
        if l.startswith("Error:"):
            on = True
        if on:
            out.append(l)
    return "\n".join(out[:n])


def tagged(lines, tag):
    """Lines TLC printed via PrintT("<tag> " \\o json): yields the parsed JSON."""
    pre = '"' + tag + " "
    res = []
    for l in lines:
        if l.startswith(pre) and l.endswith('"'):
            body = l[len(pre):-1]
            body = body.replace('\\"', '"').replace("\\\\", "\\")
            res.append(json.loads(body))
    return res


# --------------------------------------------------------------------------
# Screening programs for the evaluator model

def max_int_in(node):
    m = 0
    if isinstance(node, dict):
        if node.get("t") == "int":
            m = abs(node["n"])
        for v in node.values():
            m = max(m, max_int_in(v))
    elif isinstance(node, list):
        for v in node:
            m = max(m, max_int_in(v))
    return m


def in_model(body, lit_bound=100000):
    """Programs whose integer literals are small enough for the 32-bit model."""
    return max_int_in(body) <= lit_bound


def spec_eval(bodies, name="run", workers=None, timeout=1800, max_steps=None):
    """Runs SeedRun on the given program bodies; returns outcome per program
    (None if TLC printed none for it), plus TLC stats."""
    d = scratch("specrun-" + name)
    outs = [None] * len(bodies)
    total = {"generated": 0, "distinct": 0, "depth": 0}
    CH = 1200         # programs per TLC run (a run has a time limit: big corpora are validated in pieces)
    for c0 in range(0, len(bodies), CH):
        pf = os.path.join(d, "progs%d.ndjson" % c0)
        with open(pf, "w") as f:
            for b in bodies[c0:c0 + CH]:
                f.write(json.dumps({"body": b}, separators=(",", ":")) + "\n")
        rc, lines = tlc("SeedRun", env={"SEED_PROGS": pf}, workers=workers or 8, timeout=timeout,
                        metaname="run-" + name)
        for o in tagged(lines, "OUTCOME"):
            outs[c0 + o["pi"] - 1] = o
        if not tlc_ok(rc, lines):
            raise ToolError("SeedRun failed (rc=%d):\n%s" % (rc, tlc_error_text(lines) or "\n".join(lines[-8:])))
        st = tlc_stats(lines)
        total["generated"] += st["generated"]
        total["distinct"] += st["distinct"]
        total["depth"] = max(total["depth"], st["depth"])
    return outs, total


# --------------------------------------------------------------------------
# From an outcome of the specification to the expected observable behaviour

def bts(xs):
    return bytes(xs)


def piece_text(p, locfn):
    k = p["p"]
    if k == "s":
        return p["s"].encode()
    if k == "b":
        return bts(p["b"])
    if k == "n":
        return str(p["n"]).encode()
    if k == "loc":
        l, c = locfn(p["loc"])
        return ("%d:%d" % (l, c)).encode()
    raise ValueError(k)


def plain_loc(loc):
    """Positions of a program that came from the AST dump: real (line, col)."""
    if isinstance(loc, dict):
        # an interpolation slot: the dump gives the position of its `$`; the expression starts after `${`
        return loc["sloc"][0], loc["sloc"][1] + 2
    return loc[0], loc[1]


def fn_text(fn, root):
    if fn["k"] == "root":
        return root
    if fn["k"] == "anon":
        return b"<unnamed function>"
    return bts(fn["b"])


OPAQUE_TAIL = {"StringConstructionFailed", "InterpolateStringParseFailed", "PrintUtf8",
               "ThisUtf8"}


def expected(outcome, path, locfn=plain_loc):
    """(stdout, stderr, exit, opaque) the interpreter must produce for this
    outcome when the script was given as `path`. With opaque=True the first
    stderr line is only a prefix (the tail is text of the Rust runtime)."""
    out = b"".join(bts(x) + b"\n" for x in outcome["out"])
    st = outcome["status"]
    if st["k"] == "done":
        return out, b"", 0, False
    if st["k"] != "failed":
        raise ValueError("no expectation for status " + st["k"])
    d = st["diag"]
    p = path.encode()
    first = p + b":"
    for lc in d["locs"]:
        l, c = locfn(lc["loc"])
        first += ("%d:%d:" % (l, c)).encode()
        if lc["fn"]["k"] != "root":
            first += b" in '" + fn_text(lc["fn"], None) + b"':"
        first += b" "
    first += b"".join(piece_text(x, locfn) for x in d["msg"])
    rest = b""
    if d["trace"]:
        rest = b"\nStacktrace:"
        for t in d["trace"]:
            l, c = locfn(t["loc"])
            rest += b"\n  " + p + (":%d:%d: in '" % (l, c)).encode() + fn_text(t["fn"], b"<root>") + b"'"
    opaque = d["kind"] in OPAQUE_TAIL
    return out, (first, rest + b"\n") if opaque else first + rest + b"\n", 103, opaque


def matches(exp, so, se, code):
    """Compares an expectation from `expected` with an observation."""
    eo, ee, ec, opaque = exp
    if so != eo or code != ec:
        return False
    if not opaque:
        return se == ee
    first, rest = ee
    if not se.startswith(first):
        return False
    nl = se.find(b"\n")
    return nl >= 0 and se[nl:] == rest


def show_exp(exp):
    eo, ee, ec, opaque = exp
    if opaque:
        ee = ee[0] + b"<...>" + ee[1]
    return {"stdout": eo.decode(errors="replace"), "stderr": ee.decode(errors="replace"), "exit": ec}


_FORM1 = re.compile(rb"^:([1-9][0-9]*):([0-9]+): (?:[0-9]+:[0-9]+: )*(?:in '[^']+': )?(?:[0-9]+:[0-9]+: (?:in '[^']+': )?)*(.+)$")
_TRACE = re.compile(rb"^  .+:[1-9][0-9]*:[0-9]+: in '[^']+'$")
_INTERNAL = re.compile(rb"\b[A-Z][a-z]+(?:[A-Z][a-z]+)+\s*(?::|\{)")


def stderr_form(se, path, code):
    """Specification-independent form of a failure (C17): returns None if
    well-formed, else a description. Applies to exit status 103 only."""
    if code == 0:
        return None if se == b"" else "stderr is not empty on success"
    if code != 103:
        return None
    p = path.encode()
    lines = se.split(b"\n")
    if not se.endswith(b"\n"):
        return "stderr does not end with a newline"
    lines = lines[:-1]
    if not lines or not lines[0].startswith(p):
        return "first line does not start with the script path as given"
    m = _FORM1.match(lines[0][len(p):])
    if not m:
        return "first line is not `<path>:<line>:<col>: [in '<f>': ]<message>`"
    if _INTERNAL.search(m.group(3)):
        return "message contains an internal identifier"
    rest = lines[1:]
    if rest:
        if rest[0] != b"Stacktrace:":
            return "unexpected text after the first line"
        if len(rest) < 2:
            return "empty stack trace"
        for t in rest[1:]:
            if not _TRACE.match(t) or not t[2:].startswith(p):
                return "malformed stack trace line"
        if not rest[-1].endswith(b"in '<root>'"):
            return "stack trace does not end at <root>"
    return None


def crashed(se, code):
    """Specification-independent crash oracle (C02)."""
    if code is None:
        return "timeout"
    if code < 0:
        return "signal %d" % -code
    if code == 101:
        return "exit 101"
    if b"panicked at" in se or b"has overflowed its stack" in se:
        return "panic text"
    return None


# --------------------------------------------------------------------------
# The repository's own test corpus

MARK = "=" * 50
SEC = "-" * 50


def load_repo_tests():
    """All tests of /repo/tests/stdout as dicts name, src, code, stdout, stderr, path."""
    d = os.path.join(REPO, "tests", "stdout")
    tests = []
    for fn in sorted(os.listdir(d)):
        stem, ext = os.path.splitext(fn)
        if ext not in (".test", ".xtest"):
            continue
        x = ext == ".xtest"
        cur = None
        sec = 0
        for line in open(os.path.join(d, fn), encoding="utf-8").read().split("\n"):
            if line.startswith(MARK):
                suf = line[len(MARK):]
                if cur:
                    tests.append(cur)
                    cur = None
                if suf.strip():
                    cur = {"file": stem, "name": suf.strip(), "src": "", "code": 0,
                           "stdout": "", "stderr": "",
                           "path": "%s/%s.sd" % (stem, suf.strip())}
                    sec = 0
                continue
            if cur is None:
                continue
            if line == SEC:
                sec += 1
                continue
            if x:
                if sec == 0:
                    cur["code"] = int(line[len("exit_code: "):])
                elif sec == 1:
                    cur["src"] += line + "\n"
                elif sec == 2:
                    cur["stdout"] += line + "\n"
                elif sec == 3:
                    cur["stderr"] += line + "\n"
            else:
                if sec == 0:
                    cur["src"] += line + "\n"
                else:
                    cur["stdout"] += line + "\n"
    return tests
