#!/bin/sh
# Run once after a fresh restore, offline: regenerates the generated spec module,
# parses every specification module and builds /repo twice (guard off / on).
set -e
cd "$(dirname "$0")"
mkdir -p work evidence
python3 tools/gen_text.py spec/SeedText.tla
for m in spec/*.tla; do
  ( cd spec && tla-sany "$(basename "$m")" > ../work/sany.log 2>&1 ) || { echo "SANY failed on $m"; tail -20 work/sany.log; exit 1; }
done
python3 - <<'PY'
import sys
sys.path.insert(0, "lib")
import seedverif as sv
sv.build(False)
sv.build(True)
PY
python3 ./check selftest > work/selftest.log 2>&1 || { echo "selftest failed"; tail -5 work/selftest.log; exit 1; }
echo setup ok
