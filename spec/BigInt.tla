------------------------------- MODULE BigInt -------------------------------
(***************************************************************************)
(* Exact integers of any size, as sign + magnitude in little-endian limbs  *)
(* of base 10^4 (limb products stay below 2^31, so TLC's own 32-bit        *)
(* integers never overflow).  Used to validate observations of the real    *)
(* 64-bit interpreter against the arithmetic laws of C06.                  *)
(*                                                                         *)
(* A number is [neg |-> BOOLEAN, mag |-> Seq(0 .. 9999)] with no high zero  *)
(* limb; zero is [neg |-> FALSE, mag |-> <<>>].                            *)
(***************************************************************************)
EXTENDS Integers, Sequences

Base == 10000
BZero == [neg |-> FALSE, mag |-> <<>>]

RECURSIVE NormMag(_)
NormMag(m) == IF Len(m) > 0 /\ m[Len(m)] = 0 THEN NormMag(SubSeq(m, 1, Len(m) - 1)) ELSE m
Mk(neg, m) == LET n == NormMag(m) IN [neg |-> (neg /\ n # <<>>), mag |-> n]

WellFormed(x) == /\ \A i \in 1 .. Len(x.mag) : x.mag[i] \in 0 .. (Base - 1)
                 /\ (Len(x.mag) > 0 => x.mag[Len(x.mag)] # 0)
                 /\ (x.mag = <<>> => ~x.neg)

\* magnitudes
RECURSIVE MagCmpFrom(_, _, _)
MagCmpFrom(a, b, i) ==          \* compare from limb i downwards (equal lengths)
    IF i = 0 THEN 0 ELSE IF a[i] < b[i] THEN -1 ELSE IF a[i] > b[i] THEN 1 ELSE MagCmpFrom(a, b, i - 1)
MagCmp(a, b) == IF Len(a) < Len(b) THEN -1 ELSE IF Len(a) > Len(b) THEN 1 ELSE MagCmpFrom(a, b, Len(a))

Limb(m, i) == IF i <= Len(m) THEN m[i] ELSE 0
RECURSIVE MagAddFrom(_, _, _, _)
MagAddFrom(a, b, i, carry) ==
    IF i > Len(a) /\ i > Len(b) THEN (IF carry = 0 THEN <<>> ELSE <<carry>>)
    ELSE LET s == Limb(a, i) + Limb(b, i) + carry IN
         <<s % Base>> \o MagAddFrom(a, b, i + 1, s \div Base)
MagAdd(a, b) == MagAddFrom(a, b, 1, 0)

RECURSIVE MagSubFrom(_, _, _, _)
MagSubFrom(a, b, i, borrow) ==      \* a >= b
    IF i > Len(a) THEN <<>>
    ELSE LET s == Limb(a, i) - Limb(b, i) - borrow IN
         IF s < 0 THEN <<s + Base>> \o MagSubFrom(a, b, i + 1, 1)
         ELSE <<s>> \o MagSubFrom(a, b, i + 1, 0)
MagSub(a, b) == NormMag(MagSubFrom(a, b, 1, 0))

RECURSIVE MagMulLimbFrom(_, _, _, _)
MagMulLimbFrom(a, d, i, carry) ==
    IF i > Len(a) THEN (IF carry = 0 THEN <<>> ELSE <<carry>>)
    ELSE LET s == a[i] * d + carry IN <<s % Base>> \o MagMulLimbFrom(a, d, i + 1, s \div Base)
MagMulLimb(a, d) == NormMag(MagMulLimbFrom(a, d, 1, 0))
RECURSIVE MagMulFrom(_, _, _)
MagMulFrom(a, b, j) ==              \* sum over limbs j.. of b, each shifted
    IF j > Len(b) THEN <<>>
    ELSE MagAdd(MagMulLimb(a, b[j]), <<0>> \o MagMulFrom(a, b, j + 1))
MagMul(a, b) == NormMag(MagMulFrom(a, b, 1))

\* signed
Neg(x) == Mk(~x.neg, x.mag)
AbsB(x) == Mk(FALSE, x.mag)
Cmp(x, y) ==
    IF x.neg /\ ~y.neg THEN -1 ELSE IF ~x.neg /\ y.neg THEN 1
    ELSE IF ~x.neg THEN MagCmp(x.mag, y.mag) ELSE MagCmp(y.mag, x.mag)
Add(x, y) ==
    IF x.neg = y.neg THEN Mk(x.neg, MagAdd(x.mag, y.mag))
    ELSE IF MagCmp(x.mag, y.mag) >= 0 THEN Mk(x.neg, MagSub(x.mag, y.mag))
    ELSE Mk(y.neg, MagSub(y.mag, x.mag))
Sub(x, y) == Add(x, Neg(y))
Mul(x, y) == Mk(x.neg # y.neg, MagMul(x.mag, y.mag))
IsZero(x) == x.mag = <<>>
Sign(x) == IF IsZero(x) THEN 0 ELSE IF x.neg THEN -1 ELSE 1

\* conversion from / to TLC integers (for cross-checking only)
RECURSIVE MagOf(_)
MagOf(n) == IF n = 0 THEN <<>> ELSE <<n % Base>> \o MagOf(n \div Base)
Of(n) == IF n < 0 THEN Mk(TRUE, MagOf(-n)) ELSE Mk(FALSE, MagOf(n))
RECURSIVE MagToInt(_, _)
MagToInt(m, i) == IF i > Len(m) THEN 0 ELSE m[i] + Base * MagToInt(m, i + 1)
ToInt(x) == IF x.neg THEN -MagToInt(x.mag, 1) ELSE MagToInt(x.mag, 1)

\* the signed 64-bit range
MaxI64 == [neg |-> FALSE, mag |-> <<5807, 5477, 368, 3372, 922>>]        \*  9223372036854775807
MinI64 == [neg |-> TRUE, mag |-> <<5808, 5477, 368, 3372, 922>>]         \* -9223372036854775808
InI64(x) == Cmp(x, MinI64) >= 0 /\ Cmp(x, MaxI64) <= 0
=============================================================================
