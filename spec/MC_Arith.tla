------------------------------ MODULE MC_Arith ------------------------------
(***************************************************************************)
(* C06 at reduced width: with MinInt = -128 and MaxInt = 127 TLC checks    *)
(* the arithmetic laws of the specification exhaustively over all 65 536   *)
(* pairs (ASSUMEs), and runs the evaluator machine on programs around the  *)
(* boundary: `x op= y` equals `x = x op y` on variable / element /         *)
(* property targets, and `a .. b` is the ascending list of a <= i < b.     *)
(* (These programs are not replayed: the implementation's width is 64;     *)
(* its conformance is Trace_Arith's business.)                             *)
(***************************************************************************)
EXTENDS SeedMC

Ints == MinInt .. MaxInt
NoHeap == <<>>
Sgn(n) == IF n < 0 THEN -1 ELSE IF n > 0 THEN 1 ELSE 0

DivMod == \A a \in Ints, b \in Ints : b # 0 => TDiv(a, b) * b + TRem(a, b) = a
RemSign == \A a \in Ints, b \in Ints :
              b # 0 => /\ (TRem(a, b) = 0 \/ Sgn(TRem(a, b)) = Sgn(a))
                       /\ Abs(TRem(a, b)) < Abs(b)
TruncToZero == \A a \in Ints, b \in Ints :
                  b # 0 => /\ Abs(TDiv(a, b)) * Abs(b) <= Abs(a)
                           /\ Abs(a) - Abs(TDiv(a, b)) * Abs(b) < Abs(b)
                           /\ (TDiv(a, b) = 0 \/ Sgn(TDiv(a, b)) = Sgn(a) * Sgn(b))
MulFitsOk == \A a \in Ints, b \in Ints : MulFits(a, b) <=> Fits(a * b)
\* exact result when it fits, otherwise (and for a zero divisor) a diagnostic naming
\* the operation and the operands
ResultRule ==
    \A op \in ArithOps, a \in Ints, b \in Ints :
        LET r == ApplyOp(op, VInt(a), VInt(b), NoHeap) IN
        IF ArithDefined(op, a, b) /\ Fits(ArithExact(op, a, b))
        THEN r = OpVal(VInt(ArithExact(op, a, b)))
        ELSE r.r = "err" /\ r.kind = "IntOverflow" /\ r.msg[2] = PN(a) /\ r.msg[4] = PS(op) /\ r.msg[6] = PN(b)
OrderRule ==
    \A a \in Ints, b \in Ints :
        /\ ApplyOp("<", VInt(a), VInt(b), NoHeap).v.b = (a < b)
        /\ ApplyOp("<=", VInt(a), VInt(b), NoHeap).v.b = (a <= b)
        /\ ApplyOp(">", VInt(a), VInt(b), NoHeap).v.b = (a > b)
        /\ ApplyOp(">=", VInt(a), VInt(b), NoHeap).v.b = (a >= b)
        /\ ApplyOp("==", VInt(a), VInt(b), NoHeap).v.b = (a = b)
        /\ ApplyOp("!=", VInt(a), VInt(b), NoHeap).v.b = (a # b)
ASSUME DivMod
ASSUME RemSign
ASSUME TruncToZero
ASSUME MulFitsOk
ASSUME ResultRule
ASSUME OrderRule

I(n) == EInt(n)
Xv == EVar(<<120>>)
Yv == EVar(<<121>>)
KP == <<112>>
Bounds == {MinInt, MinInt + 1, -2, -1, 0, 1, 2, MaxInt - 1, MaxInt}
Forms == {"var", "elem", "prop"}
OpAssignProg(op, form, a, b) ==
    CASE form = "var"  -> <<SDecl(Xv, I(a)), SDecl(Yv, I(a)), SAssign(Yv, EBin(op, Yv, I(b))),
                            SOpAssign(Xv, op, I(b)), SPrint(EBin("==", Xv, Yv))>>
      [] form = "elem" -> <<SDecl(Xv, EList(<<I(a)>>)), SDecl(Yv, EList(<<I(a)>>)),
                            SAssign(EIndex(Yv, I(0)), EBin(op, EIndex(Yv, I(0)), I(b))),
                            SOpAssign(EIndex(Xv, I(0)), op, I(b)), SPrint(EBin("==", Xv, Yv))>>
      [] form = "prop" -> <<SDecl(Xv, EObj(<<Pair(EStr(KP), I(a))>>)), SDecl(Yv, EObj(<<Pair(EStr(KP), I(a))>>)),
                            SAssign(EProp(Yv, KP), EBin(op, EProp(Yv, KP), I(b))),
                            SOpAssign(EProp(Xv, KP), op, I(b)), SPrint(EBin("==", Xv, Yv))>>

ArithParams ==
    { <<"opassign", op, f, a, b>> : op \in ArithOps, f \in Forms, a \in Bounds, b \in Bounds }
    \cup { <<"range", "-", "-", a, b>> : a \in {MinInt, -3, 0, 2, MaxInt - 2}, b \in {MinInt + 2, -1, 0, 4, MaxInt} }
ArithProgOf(p) ==
    CASE p[1] = "opassign" -> OpAssignProg(p[2], p[3], p[4], p[5])
      [] p[1] = "range" -> <<SDecl(Xv, ERange(I(p[4]), I(p[5]))), SFor(Yv, Xv, <<SPrint(EIndex(Yv, I(1)))>>)>>

\* x op= y equals x = x op y: both succeed and agree, or the plain form already failed
OpAssignRule ==
    (status.k # "running" /\ pi[1] = "opassign") =>
        IF ArithDefined(pi[2], pi[4], pi[5]) /\ Fits(ArithExact(pi[2], pi[4], pi[5]))
        THEN status.k = "done" /\ out = <<T_true>>
        ELSE status.k = "failed" /\ status.diag.kind = "IntOverflow"
\* a .. b is exactly the ascending list of the integers i with a <= i < b
RangeRule ==
    (status.k # "running" /\ pi[1] = "range") =>
        LET a == pi[4] b == pi[5] n == IF b > a THEN b - a ELSE 0 IN
        (n <= 300) => (status.k = "done" /\ out = [i \in 1 .. n |-> DecBytes(a + i - 1)])
ArithLaws == OpAssignRule /\ RangeRule
Arith8Min == -128
Arith8Max == 127
=============================================================================
