------------------------------ MODULE MC_BigInt ------------------------------
(* BigInt cross-checked against TLC's native integers on all pairs of a set  *)
(* of values straddling the limb boundaries.                                 *)
EXTENDS BigInt, TLC
Vals == {0, 1, -1, 2, 9, 10, 99, 9999, -9999, 10000, -10000, 10001, 19999, 20000, 12345, -30000,
         32767, 46340, -46340, 99999, 100000, 40000000, 99999999, 100000000, -100000001, 536870912, 1073741823}
Small == {v \in Vals : v > -46341 /\ v < 46341}
AddOk == \A a \in Vals, b \in Vals : ToInt(Add(Of(a), Of(b))) = a + b /\ WellFormed(Add(Of(a), Of(b)))
SubOk == \A a \in Vals, b \in Vals : ToInt(Sub(Of(a), Of(b))) = a - b /\ WellFormed(Sub(Of(a), Of(b)))
MulOk == \A a \in Small, b \in Small : ToInt(Mul(Of(a), Of(b))) = a * b /\ WellFormed(Mul(Of(a), Of(b)))
CmpOk == \A a \in Vals, b \in Vals : Cmp(Of(a), Of(b)) = (IF a < b THEN -1 ELSE IF a > b THEN 1 ELSE 0)
RoundOk == \A a \in Vals : ToInt(Of(a)) = a /\ WellFormed(Of(a))
\* multiplication beyond 32 bits: (10^8 + 1)^2 = 10^16 + 2*10^8 + 1, and distributivity on large values
BigOk == /\ Mul(Of(100000001), Of(100000001)) = [neg |-> FALSE, mag |-> <<1, 0, 2, 0, 1>>]
         /\ \A a \in Vals, b \in Vals, cx \in {99999999, -100000001, 1073741823} :
               Mul(Of(cx), Add(Of(a), Of(b))) = Add(Mul(Of(cx), Of(a)), Mul(Of(cx), Of(b)))
         /\ Add(MaxI64, Of(1)) = Neg(MinI64) /\ InI64(MaxI64) /\ InI64(MinI64)
         /\ ~InI64(Add(MaxI64, Of(1))) /\ ~InI64(Sub(MinI64, Of(1)))
ASSUME AddOk
ASSUME SubOk
ASSUME MulOk
ASSUME CmpOk
ASSUME RoundOk
ASSUME BigOk
VARIABLE x
Init == x = 0
Next == UNCHANGED x
=============================================================================
