------------------------------- MODULE MC_C01 -------------------------------
(***************************************************************************)
(* C01 -- whole-program behaviour equals the documented semantics; the     *)
(* constructs compose.  Feature composition: outer construct x inner       *)
(* construct x payload, over a shared environment (an int, a list, an      *)
(* object, a non-ASCII string, a counter closure, a method), with the      *)
(* environment printed at the end.                                         *)
(***************************************************************************)
EXTENDS SeedMC

I(n) == EInt(n)
Nm(s) == EVar(s)
Nn == Nm(<<110>>)
Xs == Nm(<<120, 115>>)
Ob == Nm(<<111, 98>>)
Sv == Nm(<<115, 118>>)
KA == <<97>>
KB == <<98>>
Cnt(d) == Nm(<<105, 48 + d>>)
It(d) == Nm(<<118, 48 + d>>)
Fn(d) == <<102, 48 + d>>
Tmp(i) == Nm(<<116, 48 + i>>)

Env ==
    <<SDecl(Nn, I(1)),
      SDecl(Xs, EList(<<I(1), I(2), I(3)>>)),
      SDecl(Ob, EObj(<<Pair(EStr(KB), I(2)), Pair(EStr(KA), I(1)),
                       Pair(EStr(<<103, 101, 116>>), EFunc(<<>>, FALSE, <<SReturn(EProp(EVar(N_this), KA))>>))>>)),
      SDecl(Sv, EStr(<<104, 195, 169, 33>>)),
      SFn(<<109, 107>>, <<>>, FALSE,
          <<SDecl(Nm(<<99>>), I(0)),
            SReturn(EFunc(<<>>, FALSE, <<SOpAssign(Nm(<<99>>), "+", I(1)), SReturn(Nm(<<99>>))>>))>>),
      SDecl(Nm(<<99, 116, 114>>), ECall(Nm(<<109, 107>>), <<>>))>>
Final == <<SPrint(Nn), SPrint(Xs), SPrint(EProp(Ob, KA)), SPrint(EProp(Ob, KB)), SPrint(Sv)>>

Payloads == {"declare", "assign", "opassign", "listdestruct", "objdestruct", "idxassign", "propassign",
             "rangeassign", "print", "interp", "spreadcall", "closure", "method", "typefn", "concat",
             "compare", "rangeidx", "newkey", "strops", "break", "continue", "return", "error"}
Payload(p) ==
    CASE p = "declare"  -> <<SDecl(Tmp(1), EBin("+", Nn, I(10))), SPrint(Tmp(1))>>
      [] p = "assign"   -> <<SAssign(Nn, EBin("*", Nn, I(2))), SPrint(Nn)>>
      [] p = "opassign" -> <<SOpAssign(Nn, "+", I(5)), SOpAssign(EIndex(Xs, I(0)), "-", I(1)),
                             SOpAssign(EProp(Ob, KA), "*", I(3))>>
      [] p = "listdestruct" -> <<SDecl(EPatRest(<<Tmp(1), EVar(N_us), Tmp(2)>>), EBin("+", Xs, EList(<<I(9)>>))),
                                 SPrint(Tmp(1)), SPrint(Tmp(2))>>
      [] p = "objdestruct"  -> <<SDecl(EObj(<<Short(Nm(KA)), Pair(EStr(KB), Tmp(1)), PCollect(Tmp(2))>>), Ob),
                                 SPrint(EBin("+", Nm(KA), Tmp(1)))>>
      [] p = "idxassign"   -> <<SAssign(EIndex(Xs, I(1)), EList(<<Nn>>)), SPrint(EIndex(Xs, I(1)))>>
      [] p = "propassign"  -> <<SAssign(EProp(Ob, KB), EBin("+", EProp(Ob, KB), I(1)))>>
      [] p = "rangeassign" -> <<SAssign(ERIndex(Xs, I(1), ENone), EStr(<<120, 121>>))>>
      [] p = "print"       -> <<SPrint(EList(<<Nn, EObj(<<Pair(EStr(KA), Xs)>>)>>))>>
      [] p = "interp"      -> <<SPrint(EIStr(<<Lit(<<60>>), SlotP(0, EBin("+", Sv, EStr(<<126>>))), Lit(<<62>>)>>))>>
      [] p = "spreadcall"  -> <<SFn(<<115, 109>>, <<Tmp(1), Tmp(2), Tmp(3)>>, TRUE,
                                    <<SReturn(EBin("+", EList(<<EBin("+", Tmp(1), Tmp(2))>>), Tmp(3)))>>),
                                SPrint(ECallOf(Nm(<<115, 109>>), <<Item(I(7)), Spread(Xs)>>))>>
      [] p = "closure"     -> <<SPrint(ECall(Nm(<<99, 116, 114>>), <<>>)), SPrint(ECall(Nm(<<99, 116, 114>>), <<>>))>>
      [] p = "method"      -> <<SPrint(ECall(EProp(Ob, <<103, 101, 116>>), <<>>)),
                                SDecl(Tmp(1), EProp(Ob, <<103, 101, 116>>)), SAssign(EProp(Ob, KA), I(50)),
                                SPrint(ECall(Tmp(1), <<>>))>>
      [] p = "typefn"      -> <<SPrint(ECall(ETProp(Sv, N_len), <<>>)), SPrint(ECall(ETProp(Xs, N_type), <<>>))>>
      [] p = "concat"      -> <<SAssign(Xs, EBin("+", Xs, EListOf(<<Spread(Xs)>>))), SOpAssign(Sv, "+", Sv)>>
      [] p = "compare"     -> <<SPrint(EBin("&&", EBin("==", Xs, EList(<<I(1), I(2), I(3)>>)),
                                          EBin("<", Nn, I(3))))>>
      [] p = "rangeidx"    -> <<SPrint(ERIndex(Xs, I(1), ENone)), SPrint(ERIndex(Sv, ENone, I(1))),
                                SPrint(ERange(Nn, I(4)))>>
      [] p = "newkey"      -> <<SAssign(EIndex(Ob, EStr(<<65>>)), Nn), SFor(Tmp(1), Ob, <<SPrint(EIndex(Tmp(1), I(0)))>>)>>
      [] p = "strops"      -> <<SFor(Tmp(1), EStr(<<97, 98>>), <<SPrint(Tmp(1))>>), SPrint(EIndex(Sv, I(0)))>>
      [] p = "break"       -> <<SPrint(I(70)), SBreak, SPrint(I(71))>>
      [] p = "continue"    -> <<SPrint(I(72)), SContinue, SPrint(I(73))>>
      [] p = "return"      -> <<SPrint(I(74)), SReturn(Nn), SPrint(I(75))>>
      [] p = "error"       -> <<SPrint(I(76)), SPrint(EBin("+", Nn, Sv))>>

Constructs == {"block", "if", "else", "while", "forlist", "forstring", "forobject", "namedfn", "anonfn",
               "method", "closure", "seq"}
P(n) == SPrint(I(n))
Wrap(kx, d, body) ==
    CASE kx = "seq"      -> body
      [] kx = "block"    -> <<SBlock(body)>>
      [] kx = "if"       -> <<SIf(EBin("<", Nn, I(100)), body)>>
      [] kx = "else"     -> <<SIfOf(<<Branch(EBin(">", Nn, I(100)), <<P(90)>>),
                                     Branch(EBin("==", Nn, I(-1)), <<P(91)>>)>>, Else(body))>>
      [] kx = "while"    -> <<SDecl(Cnt(d), I(0)),
                              SWhile(EBin("<", Cnt(d), I(2)), <<SOpAssign(Cnt(d), "+", I(1))>> \o body)>>
      [] kx = "forlist"  -> <<SFor(EPat(<<EVar(N_us), It(d)>>), EList(<<I(5), I(6)>>), <<SPrint(It(d))>> \o body)>>
      [] kx = "forstring" -> <<SFor(It(d), EStr(<<97, 98>>), body)>>
      [] kx = "forobject" -> <<SFor(EPat(<<It(d), EVar(N_us)>>), EObj(<<Pair(EStr(<<122>>), I(1)), Pair(EStr(<<121>>), I(2))>>),
                                    <<SPrint(It(d))>> \o body)>>
      [] kx = "namedfn"  -> <<SFn(Fn(d), <<>>, FALSE, body), SPrint(ECall(Nm(Fn(d)), <<>>))>>
      [] kx = "anonfn"   -> <<SDecl(Nm(Fn(d)), EFunc(<<It(d)>>, FALSE, body)), SPrint(ECall(Nm(Fn(d)), <<I(d)>>))>>
      [] kx = "method"   -> <<SDecl(Nm(Fn(d)), EObj(<<Pair(EStr(<<109>>), EFunc(<<>>, FALSE, body)), Pair(EStr(KA), I(40 + d))>>)),
                              SPrint(ECall(EProp(Nm(Fn(d)), <<109>>), <<>>))>>
      [] kx = "closure"  -> <<SFn(Fn(d), <<>>, FALSE, <<SDecl(It(d), I(30 + d)), SReturn(EFunc(<<>>, FALSE, <<SPrint(It(d))>> \o body))>>),
                              SDecl(Cnt(d), ECall(Nm(Fn(d)), <<>>)), SPrint(ECall(Cnt(d), <<>>))>>

\* parameter tuples <<family, outer, inner, innermost, payload>>
C01Params ==
    { <<"d2", k1, k2, "-", p>> : k1 \in Constructs, k2 \in Constructs \ {"seq"}, p \in Payloads }
C01ParamsQuick ==
    { <<"d2", k1, k2, "-", p>> :
        k1 \in Constructs, k2 \in {"block", "while", "forlist", "namedfn", "method", "closure"}, p \in Payloads }
C01ParamsTiny ==
    { <<"d2", k1, k2, "-", p>> :
        k1 \in {"seq", "if", "forobject", "anonfn"}, k2 \in {"block", "while", "method"}, p \in Payloads }
C01ParamsThorough ==
    C01Params
    \cup { <<"d3", k1, k2, k3, p>> :
             k1 \in Constructs \ {"seq"}, k2 \in Constructs \ {"seq"}, k3 \in Constructs \ {"seq", "else"}, p \in Payloads }
    \cup { <<"pp", k1, p1, "-", p2>> : k1 \in Constructs, p1 \in Payloads, p2 \in Payloads }

C01ProgOf(p) ==
    CASE p[1] = "d2" -> Env \o <<P(1)>> \o Wrap(p[2], 1, <<P(2)>> \o Wrap(p[3], 2, Payload(p[5])) \o <<P(3)>>)
                        \o <<P(4)>> \o Final
      [] p[1] = "d3" -> Env \o Wrap(p[2], 1, <<P(2)>> \o Wrap(p[3], 2, Wrap(p[4], 3, Payload(p[5])) \o <<P(5)>>)
                                              \o <<P(3)>>)
                        \o Final
      \* two payloads in sequence inside one construct (a construct depends on the rest of
      \* the program only through values and bindings)
      [] p[1] = "pp" -> Env \o Wrap(p[2], 1, Payload(p[3]) \o <<SBlock(Payload(p[5]))>>) \o Final
=============================================================================
