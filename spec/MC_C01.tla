------------------------------- MODULE MC_C01 -------------------------------
(***************************************************************************)
(* C01 -- whole-program behaviour equals the documented semantics; the     *)
(* constructs compose.  Feature composition: outer construct x inner       *)
(* construct x payload, over a shared environment (an int, a list, an      *)
(* object, a non-ASCII string, a counter closure, a method), with the      *)
(* environment printed at the end.                                         *)
(***************************************************************************)
EXTENDS SeedMC

I(n) == EInt(n)
Nm(s) == EVar(s)
Nn == Nm(<<110>>)
Xs == Nm(<<120, 115>>)
Ob == Nm(<<111, 98>>)
Sv == Nm(<<115, 118>>)
KA == <<97>>
KB == <<98>>
Cnt(d) == Nm(<<105, 48 + d>>)
It(d) == Nm(<<118, 48 + d>>)
Fn(d) == <<102, 48 + d>>
Tmp(i) == Nm(<<116, 48 + i>>)

Env ==
    <<SDecl(Nn, I(1)),
      SDecl(Xs, EList(<<I(1), I(2), I(3)>>)),
      SDecl(Ob, EObj(<<Pair(EStr(KB), I(2)), Pair(EStr(KA), I(1)),
                       Pair(EStr(<<103, 101, 116>>), EFunc(<<>>, FALSE, <<SReturn(EProp(EVar(N_this), KA))>>))>>)),
      SDecl(Sv, EStr(<<104, 195, 169, 33>>)),
      SFn(<<109, 107>>, <<>>, FALSE,
          <<SDecl(Nm(<<99>>), I(0)),
            SReturn(EFunc(<<>>, FALSE, <<SOpAssign(Nm(<<99>>), "+", I(1)), SReturn(Nm(<<99>>))>>))>>),
      SDecl(Nm(<<99, 116, 114>>), ECall(Nm(<<109, 107>>), <<>>))>>
Final == <<SPrint(Nn), SPrint(Xs), SPrint(EProp(Ob, KA)), SPrint(EProp(Ob, KB)), SPrint(Sv)>>

Payloads == {"declare", "assign", "opassign", "listdestruct", "objdestruct", "idxassign", "propassign",
             "rangeassign", "print", "interp", "spreadcall", "closure", "method", "typefn", "concat",
             "compare", "rangeidx", "newkey", "strops", "break", "continue", "return", "error",
             "nestinterp", "rebind", "loopmutate", "sloterror", "slotcallerror", "cmplen", "bytelen", "dupbinding"}
Payload(p) ==
    CASE p = "declare"  -> <<SDecl(Tmp(1), EBin("+", Nn, I(10))), SPrint(Tmp(1))>>
      [] p = "assign"   -> <<SAssign(Nn, EBin("*", Nn, I(2))), SPrint(Nn)>>
      [] p = "opassign" -> <<SOpAssign(Nn, "+", I(5)), SOpAssign(EIndex(Xs, I(0)), "-", I(1)),
                             SOpAssign(EProp(Ob, KA), "*", I(3))>>
      [] p = "listdestruct" -> <<SDecl(EPatRest(<<Tmp(1), EVar(N_us), Tmp(2)>>), EBin("+", Xs, EList(<<I(9)>>))),
                                 SPrint(Tmp(1)), SPrint(Tmp(2))>>
      [] p = "objdestruct"  -> <<SDecl(EObj(<<Short(Nm(KA)), Pair(EStr(KB), Tmp(1)), PCollect(Tmp(2))>>), Ob),
                                 SPrint(EBin("+", Nm(KA), Tmp(1)))>>
      [] p = "idxassign"   -> <<SAssign(EIndex(Xs, I(1)), EList(<<Nn>>)), SPrint(EIndex(Xs, I(1)))>>
      [] p = "propassign"  -> <<SAssign(EProp(Ob, KB), EBin("+", EProp(Ob, KB), I(1)))>>
      [] p = "rangeassign" -> <<SAssign(ERIndex(Xs, I(1), ENone), EStr(<<120, 121>>))>>
      [] p = "print"       -> <<SPrint(EList(<<Nn, EObj(<<Pair(EStr(KA), Xs)>>)>>))>>
      [] p = "interp"      -> <<SPrint(EIStr(<<Lit(<<60>>), SlotP(0, EBin("+", Sv, EStr(<<126>>))), Lit(<<62>>)>>))>>
      [] p = "spreadcall"  -> <<SFn(<<115, 109>>, <<Tmp(1), Tmp(2), Tmp(3)>>, TRUE,
                                    <<SReturn(EBin("+", EList(<<EBin("+", Tmp(1), Tmp(2))>>), Tmp(3)))>>),
                                SPrint(ECallOf(Nm(<<115, 109>>), <<Item(I(7)), Spread(Xs)>>))>>
      [] p = "closure"     -> <<SPrint(ECall(Nm(<<99, 116, 114>>), <<>>)), SPrint(ECall(Nm(<<99, 116, 114>>), <<>>))>>
      [] p = "method"      -> <<SPrint(ECall(EProp(Ob, <<103, 101, 116>>), <<>>)),
                                SDecl(Tmp(1), EProp(Ob, <<103, 101, 116>>)), SAssign(EProp(Ob, KA), I(50)),
                                SPrint(ECall(Tmp(1), <<>>))>>
      [] p = "typefn"      -> <<SPrint(ECall(ETProp(Sv, N_len), <<>>)), SPrint(ECall(ETProp(Xs, N_type), <<>>))>>
      [] p = "concat"      -> <<SAssign(Xs, EBin("+", Xs, EListOf(<<Spread(Xs)>>))), SOpAssign(Sv, "+", Sv)>>
      [] p = "compare"     -> <<SPrint(EBin("&&", EBin("==", Xs, EList(<<I(1), I(2), I(3)>>)),
                                          EBin("<", Nn, I(3))))>>
      [] p = "rangeidx"    -> <<SPrint(ERIndex(Xs, I(1), ENone)), SPrint(ERIndex(Sv, ENone, I(1))),
                                SPrint(ERange(Nn, I(4)))>>
      [] p = "newkey"      -> <<SAssign(EIndex(Ob, EStr(<<65>>)), Nn), SFor(Tmp(1), Ob, <<SPrint(EIndex(Tmp(1), I(0)))>>)>>
      [] p = "strops"      -> <<SFor(Tmp(1), EStr(<<97, 98>>), <<SPrint(Tmp(1))>>), SPrint(EIndex(Sv, I(0)))>>
      [] p = "break"       -> <<SPrint(I(70)), SBreak, SPrint(I(71))>>
      [] p = "continue"    -> <<SPrint(I(72)), SContinue, SPrint(I(73))>>
      [] p = "return"      -> <<SPrint(I(74)), SReturn(Nn), SPrint(I(75))>>
      [] p = "error"       -> <<SPrint(I(76)), SPrint(EBin("+", Nn, Sv))>>
      \* interpolated strings nested in the slots of one string, same shape, different slot texts
      [] p = "nestinterp"  -> <<SPrint(EIStr(<<Lit(<<>>),
                                              SlotP(0, EIStr(<<Lit(<<91>>), SlotP(0, Sv), Lit(<<93>>)>>)), Lit(<<32>>),
                                              SlotP(0, EIStr(<<Lit(<<91>>), SlotP(0, EStr(KA)), Lit(<<93>>)>>)), Lit(<<>>)>>)),
                                SPrint(EIStr(<<Lit(<<>>), SlotP(0, EStr(KB)), Lit(<<33>>)>>)),
                                SPrint(EIStr(<<Lit(<<>>), SlotP(0, Sv), Lit(<<33>>)>>))>>
      \* the loop walks the items it found at entry, whatever the body writes into the list meanwhile
      [] p = "loopmutate"  -> <<SFor(EPat(<<Tmp(1), Tmp(2)>>), Xs,
                                     <<SIf(EBin("==", Tmp(1), I(0)), <<SAssign(EIndex(Xs, I(2)), I(99)),
                                                                       SAssign(ERIndex(Xs, I(1), I(2)), EList(<<I(98)>>))>>),
                                       SPrint(Tmp(2))>>),
                                SPrint(Xs)>>
      \* a failure inside an interpolation slot / inside a call made from a slot is reported in the enclosing function
      [] p = "sloterror"   -> <<SPrint(I(77)), SPrint(EIStr(<<Lit(<<60>>), SlotP(0, EBin("+", Nn, Sv)), Lit(<<62>>)>>))>>
      [] p = "slotcallerror" -> <<SFn(<<115, 99>>, <<>>, FALSE, <<SReturn(EBin("+", Sv, Nn))>>),
                                  SPrint(EIStr(<<Lit(<<195, 169, 10>>), SlotP(0, ECall(Nm(<<115, 99>>), <<>>)), Lit(<<62>>)>>))>>
      \* lists of different lengths are unequal whatever they hold; a piece of a character has no ->len
      [] p = "cmplen"      -> <<SPrint(EBin("==", EList(<<I(1), Sv>>), EList(<<Sv>>))),
                                SPrint(EBin("!=", EBin("+", Xs, EList(<<Sv>>)), EList(<<Sv, I(2)>>))),
                                SPrint(EBin("==", EList(<<EList(<<I(1), Sv>>)>>), EList(<<EList(<<Sv>>)>>))),
                                \* the same object (it holds a function) inside two lists: equal, being the same
                                SPrint(EBin("==", EList(<<Ob>>), EList(<<Ob>>))),
                                SPrint(EBin("!=", EObj(<<Pair(EStr(KA), Ob)>>), EObj(<<Pair(EStr(KA), Ob)>>)))>>
      \* one name bound twice by one pattern (as an entry and as the rest) is refused
      [] p = "dupbinding"  -> <<SDecl(Tmp(1), I(0)), SDecl(Tmp(2), I(0)), SPrint(I(79)),
                                SAssign(EObj(<<Pair(EStr(KA), Tmp(1)), Pair(EStr(KB), Tmp(2)), PCollect(Tmp(1))>>), Ob), SPrint(Tmp(1))>>
      [] p = "bytelen"     -> <<SPrint(ECall(ETProp(ERIndex(Sv, ENone, I(1)), N_len), <<>>)),
                                SDecl(Tmp(1), ETProp(ERIndex(Sv, I(1), I(2)), N_len)), SPrint(I(78)), SPrint(ECall(Tmp(1), <<>>))>>
      \* a variable that held a method read from one object is assigned the method read from another
      [] p = "rebind"      -> <<SDecl(Tmp(1), EProp(Ob, <<103, 101, 116>>)),
                                SDecl(Tmp(2), EObj(<<Pair(EStr(KA), I(77)), Pair(EStr(<<103, 101, 116>>), EProp(Ob, <<103, 101, 116>>))>>)),
                                SPrint(ECall(Tmp(1), <<>>)),
                                SAssign(Tmp(1), EProp(Tmp(2), <<103, 101, 116>>)),
                                SPrint(ECall(Tmp(1), <<>>)),
                                SDecl(Tmp(3), ENull), SAssign(Tmp(3), EProp(Ob, <<103, 101, 116>>)),
                                SPrint(ECall(Tmp(3), <<>>))>>

Constructs == {"block", "if", "else", "while", "forlist", "forstring", "forobject", "namedfn", "anonfn",
               "method", "closure", "seq"}
P(n) == SPrint(I(n))
Wrap(kx, d, body) ==
    CASE kx = "seq"      -> body
      [] kx = "block"    -> <<SBlock(body)>>
      [] kx = "if"       -> <<SIf(EBin("<", Nn, I(100)), body)>>
      [] kx = "else"     -> <<SIfOf(<<Branch(EBin(">", Nn, I(100)), <<P(90)>>),
                                     Branch(EBin("==", Nn, I(-1)), <<P(91)>>)>>, Else(body))>>
      [] kx = "while"    -> <<SDecl(Cnt(d), I(0)),
                              SWhile(EBin("<", Cnt(d), I(2)), <<SOpAssign(Cnt(d), "+", I(1))>> \o body)>>
      [] kx = "forlist"  -> <<SFor(EPat(<<EVar(N_us), It(d)>>), EList(<<I(5), I(6)>>), <<SPrint(It(d))>> \o body)>>
      [] kx = "forstring" -> <<SFor(It(d), EStr(<<97, 98>>), body)>>
      [] kx = "forobject" -> <<SFor(EPat(<<It(d), EVar(N_us)>>), EObj(<<Pair(EStr(<<122>>), I(1)), Pair(EStr(<<121>>), I(2))>>),
                                    <<SPrint(It(d))>> \o body)>>
      [] kx = "namedfn"  -> <<SFn(Fn(d), <<>>, FALSE, body), SPrint(ECall(Nm(Fn(d)), <<>>))>>
      [] kx = "anonfn"   -> <<SDecl(Nm(Fn(d)), EFunc(<<It(d)>>, FALSE, body)), SPrint(ECall(Nm(Fn(d)), <<I(d)>>))>>
      [] kx = "method"   -> <<SDecl(Nm(Fn(d)), EObj(<<Pair(EStr(<<109>>), EFunc(<<>>, FALSE, body)), Pair(EStr(KA), I(40 + d))>>)),
                              SPrint(ECall(EProp(Nm(Fn(d)), <<109>>), <<>>))>>
      [] kx = "closure"  -> <<SFn(Fn(d), <<>>, FALSE, <<SDecl(It(d), I(30 + d)), SReturn(EFunc(<<>>, FALSE, <<SPrint(It(d))>> \o body))>>),
                              SDecl(Cnt(d), ECall(Nm(Fn(d)), <<>>)), SPrint(ECall(Cnt(d), <<>>))>>

-----------------------------------------------------------------------------
(* Evaluation order and exactly-once evaluation (Appendix A of DESIGN.md): every  *)
(* sub-expression of every construct is wrapped in a tracing call `t(n, v)` that   *)
(* prints n and returns v, so stdout shows which sub-expressions were evaluated,    *)
(* how often and in which order.                                                    *)
TN == <<116>>
T(n, v) == ECall(Nm(TN), <<I(n), v>>)
TracerDef == SFn(TN, <<Nm(<<107>>), Nm(<<119>>)>>, FALSE, <<SPrint(Nm(<<107>>)), SReturn(Nm(<<119>>))>>)
Fv == Nm(<<102, 102>>)
L2 == EList(<<I(10), I(20), I(30)>>)
O2 == EObj(<<Pair(EStr(KA), I(1)), Pair(EStr(KB), I(2))>>)
Orders == [
  binop      |-> <<SPrint(EBin("+", T(1, I(2)), EBin("*", T(2, I(3)), T(3, I(4)))))>>,
  noshort    |-> <<SPrint(EBin("&&", T(1, EBool(FALSE)), T(2, EBool(TRUE)))),
                   SPrint(EBin("||", T(3, EBool(TRUE)), T(4, EBool(FALSE))))>>,
  call       |-> <<SFn(<<102, 102>>, <<Tmp(1), Tmp(2)>>, FALSE, <<SReturn(EBin("-", Tmp(1), Tmp(2)))>>),
                   SPrint(ECall(T(1, Fv), <<T(2, I(9)), T(3, I(4))>>))>>,
  callspread |-> <<SFn(<<102, 102>>, <<Tmp(1), Tmp(2), Tmp(3)>>, TRUE, <<SReturn(EList(<<Tmp(1), Tmp(2), Tmp(3)>>))>>),
                   SPrint(ECallOf(T(1, Fv), <<Item(T(2, I(9))), Spread(T(3, L2)), Item(T(4, I(5)))>>))>>,
  list       |-> <<SPrint(EListOf(<<Item(T(1, I(1))), Spread(T(2, L2)), Item(T(3, I(3)))>>))>>,
  object     |-> <<SPrint(EObj(<<Pair(T(1, EStr(KB)), T(2, I(1))), Pair(T(3, EStr(KA)), T(4, I(2))),
                                 PSpread(T(5, O2)), Pair(T(6, EStr(KA)), T(7, I(3)))>>))>>,
  index      |-> <<SPrint(EIndex(T(1, L2), T(2, I(1)))), SPrint(EIndex(T(3, O2), T(4, EStr(KB)))),
                   SPrint(EIndex(T(5, EStr(<<120, 121>>)), T(6, I(0))))>>,
  indexbad   |-> <<SPrint(EIndex(T(1, I(5)), T(2, I(1))))>>,
  rindex     |-> <<SPrint(ERIndex(T(1, L2), T(2, I(0)), T(3, I(2)))), SPrint(ERIndex(T(4, EStr(<<120, 121>>)), ENone, T(5, I(1))))>>,
  range      |-> <<SPrint(ERange(T(1, I(0)), T(2, I(2))))>>,
  prop       |-> <<SPrint(EProp(T(1, O2), KA)), SPrint(ECall(ETProp(T(2, EStr(<<120>>)), N_len), <<>>))>>,
  interp     |-> <<SPrint(EIStr(<<Lit(<<60>>), SlotP(0, T(1, EStr(<<97>>))), Lit(<<45>>), SlotP(0, T(2, EStr(<<98>>))), Lit(<<62>>)>>))>>,
  declare    |-> <<SDecl(EPat(<<Tmp(1), Tmp(2)>>), T(1, EList(<<I(1), I(2)>>))), SPrint(Tmp(2))>>,
  destructtargets |-> <<SDecl(Tmp(1), EList(<<I(0), I(0)>>)), SDecl(Tmp(2), EObj(<<>>)),
                        SAssign(EPat(<<EIndex(T(1, Tmp(1)), T(2, I(1))), EProp(T(3, Tmp(2)), KA)>>), T(4, EList(<<I(7), I(8)>>))),
                        SPrint(Tmp(1)), SPrint(Tmp(2))>>,
  idxassign  |-> <<SDecl(Tmp(1), L2), SAssign(EIndex(T(1, Tmp(1)), T(2, I(0))), T(3, I(9))), SPrint(Tmp(1))>>,
  objidxassign |-> <<SDecl(Tmp(1), O2), SAssign(EIndex(T(1, Tmp(1)), T(2, EStr(<<99>>))), T(3, I(9))), SPrint(Tmp(1))>>,
  propassign |-> <<SDecl(Tmp(1), O2), SAssign(EProp(T(1, Tmp(1)), KA), T(2, I(9))), SPrint(Tmp(1))>>,
  rangeassign |-> <<SDecl(Tmp(1), L2), SAssign(ERIndex(T(1, Tmp(1)), T(2, I(0)), T(3, I(2))), T(4, EList(<<I(7), I(8)>>))),
                    SPrint(Tmp(1))>>,
  opassign   |-> <<SDecl(Tmp(1), L2), SOpAssign(EIndex(T(1, Tmp(1)), T(2, I(0))), "+", T(3, I(5))),
                   SDecl(Tmp(2), O2), SOpAssign(EProp(T(4, Tmp(2)), KA), "*", T(5, I(5))), SPrint(Tmp(1)), SPrint(Tmp(2))>>,
  ifchain    |-> <<SIfOf(<<Branch(T(1, EBool(FALSE)), <<P(91)>>), Branch(T(2, EBool(TRUE)), <<P(92)>>),
                            Branch(T(3, EBool(TRUE)), <<P(93)>>)>>, Else(<<P(94)>>))>>,
  while      |-> <<SDecl(Tmp(1), I(0)), SWhile(T(1, EBin("<", Tmp(1), I(2))), <<SOpAssign(Tmp(1), "+", I(1)), SIf(EBin("==", Tmp(1), I(1)), <<SContinue>>)>>)>>,
  forlist    |-> <<SFor(Tmp(1), T(1, L2), <<SPrint(EIndex(Tmp(1), I(1)))>>)>>,
  forrange   |-> <<SDecl(Tmp(2), I(3)),
                   SFor(Tmp(1), ERange(T(1, I(0)), T(2, Tmp(2))), <<SOpAssign(Tmp(2), "-", I(1)), SPrint(EIndex(Tmp(1), I(1)))>>),
                   SPrint(Tmp(2))>>,
  forrangefn |-> <<SDecl(Tmp(2), I(3)), SFn(<<108, 109>>, <<>>, FALSE, <<SPrint(I(77)), SReturn(Tmp(2))>>),
                   SFor(EPat(<<EVar(N_us), Tmp(1)>>), ERange(I(0), ECall(Nm(<<108, 109>>), <<>>)),
                        <<SOpAssign(Tmp(2), "-", I(1)), SPrint(Tmp(1))>>)>>,
  return     |-> <<SFn(<<102, 102>>, <<>>, FALSE, <<SReturn(T(1, EBin("+", T(2, I(1)), I(1))))>>), SPrint(ECall(Fv, <<>>))>>,
  objdestruct |-> <<SDecl(EObj(<<Pair(T(1, EStr(KA)), Tmp(1)), Pair(T(2, EStr(KB)), Tmp(2))>>), T(3, O2)),
                    SPrint(EBin("-", Tmp(1), Tmp(2)))>>,
  \* the same impure expression written twice: evaluated twice
  samesloteffects |-> <<SDecl(Tmp(1), I(0)),
                        SFn(<<110, 120>>, <<>>, FALSE, <<SOpAssign(Tmp(1), "+", I(1)), SReturn(EIStr(<<Lit(<<35>>), SlotP(0, ECall(ETProp(EBin("+", EStr(<<>>), EStr(<<120>>)), N_type), <<>>)), Lit(<<>>)>>))>>),
                        SFn(<<110, 110>>, <<>>, FALSE, <<SOpAssign(Tmp(1), "+", I(1)),
                                                         SIf(EBin("==", Tmp(1), I(1)), <<SReturn(EStr(<<111, 110, 101>>))>>),
                                                         SReturn(EStr(<<116, 119, 111>>))>>),
                        SPrint(EIStr(<<Lit(<<195, 169>>), SlotP(0, ECall(Nm(<<110, 110>>), <<>>)), Lit(<<44>>),
                                       SlotP(0, ECall(Nm(<<110, 110>>), <<>>)), Lit(<<226, 130, 172>>)>>)),
                        SPrint(Tmp(1))>>,
  samecalleffects |-> <<SDecl(Tmp(1), I(0)),
                        SFn(<<110, 110>>, <<>>, FALSE, <<SOpAssign(Tmp(1), "+", I(1)), SReturn(Tmp(1))>>),
                        SPrint(EList(<<ECall(Nm(<<110, 110>>), <<>>), ECall(Nm(<<110, 110>>), <<>>)>>)),
                        SPrint(EBin("-", ECall(Nm(<<110, 110>>), <<>>), ECall(Nm(<<110, 110>>), <<>>))),
                        SPrint(EObj(<<Pair(EStr(KA), ECall(Nm(<<110, 110>>), <<>>)), Pair(EStr(KB), ECall(Nm(<<110, 110>>), <<>>))>>)),
                        SFor(Tmp(2), EList(<<I(1), I(2)>>), <<SPrint(EIStr(<<Lit(<<>>), SlotP(0, ECall(ETProp(ECall(Nm(<<110, 110>>), <<>>), N_type), <<>>)), Lit(<<>>)>>))>>),
                        SPrint(Tmp(1))>>,
  interpbad  |-> <<SPrint(EIStr(<<Lit(<<60>>), SlotP(0, T(1, EStr(<<97>>))), Lit(<<45>>), SlotP(0, T(2, I(5))), Lit(<<45>>),
                                  SlotP(0, T(3, EStr(<<98>>))), Lit(<<62>>)>>))>>,
  \* a later item changes a list that an earlier item spread (read at its own turn)
  spreadeffects |-> <<SDecl(Tmp(1), EList(<<I(1), I(2), I(3)>>)),
                      SFn(<<98, 117>>, <<>>, FALSE, <<SOpAssign(EIndex(Tmp(1), I(0)), "+", I(100)), SReturn(EIndex(Tmp(1), I(0)))>>),
                      SFn(<<102, 102>>, <<Tmp(2), Tmp(3)>>, TRUE, <<SReturn(EList(<<Tmp(2), Tmp(3)>>))>>),
                      SPrint(ECallOf(Fv, <<Spread(Tmp(1)), Item(ECall(Nm(<<98, 117>>), <<>>))>>)),
                      SPrint(EListOf(<<Spread(Tmp(1)), Item(ECall(Nm(<<98, 117>>), <<>>)), Spread(Tmp(1))>>)),
                      SFn(<<121, 115>>, <<>>, FALSE, <<SAssign(EIndex(Tmp(1), I(1)), I(0)), SReturn(EList(<<I(4)>>))>>),
                      SPrint(EListOf(<<Spread(Tmp(1)), Spread(ECall(Nm(<<121, 115>>), <<>>))>>)),
                      SDecl(Tmp(4), EObj(<<Pair(EStr(KA), I(1))>>)),
                      SFn(<<111, 115>>, <<>>, FALSE, <<SAssign(EProp(Tmp(4), KA), I(50)), SReturn(EObj(<<Pair(EStr(KB), I(2))>>))>>),
                      SPrint(EObj(<<PSpread(Tmp(4)), PSpread(ECall(Nm(<<111, 115>>), <<>>))>>)),
                      SPrint(EBin("+", Tmp(1), EList(<<ECall(Nm(<<98, 117>>), <<>>)>>))),
                      SPrint(EList(<<EIndex(Tmp(1), I(0)), ECall(Nm(<<98, 117>>), <<>>), EIndex(Tmp(1), I(0))>>))>>,
  \* a declaration whose right-hand side reads the outer variables it shadows
  shadowrhs  |-> <<SDecl(Tmp(1), I(1)), SDecl(Tmp(2), I(2)), SDecl(Tmp(3), I(3)),
                   SBlock(<<SDecl(EPat(<<Tmp(1), Tmp(2), Tmp(3)>>), EList(<<Tmp(2), Tmp(3), Tmp(1)>>)),
                            SPrint(EList(<<Tmp(1), Tmp(2), Tmp(3)>>))>>),
                   SBlock(<<SDecl(Tmp(1), EBin("+", Tmp(1), I(10))), SPrint(Tmp(1))>>),
                   SFor(EPat(<<EVar(N_us), Tmp(2)>>), EList(<<Tmp(2), EBin("+", Tmp(2), I(1))>>), <<SPrint(Tmp(2))>>),
                   SPrint(EList(<<Tmp(1), Tmp(2), Tmp(3)>>))>>,
  nestedcall |-> <<SPrint(T(1, T(2, T(3, I(4)))))>>,
  argsthenerror |-> <<SPrint(ECall(T(1, I(5)), <<T(2, I(1))>>))>>
]

\* parameter tuples <<family, outer, inner, innermost, payload>>
C01Params ==
    { <<"d2", k1, k2, "-", p>> : k1 \in Constructs, k2 \in Constructs \ {"seq"}, p \in Payloads }
OrderParams == { <<"order", kx, "-", "-", o>> : kx \in {"seq", "namedfn", "forlist"}, o \in DOMAIN Orders }
C01ParamsQuick ==
    OrderParams \cup
    { <<"d2", k1, k2, "-", p>> :
        k1 \in Constructs, k2 \in {"block", "while", "forlist", "namedfn", "method", "closure"}, p \in Payloads }
C01ParamsTiny ==
    { <<"d2", k1, k2, "-", p>> :
        k1 \in {"seq", "if", "forobject", "anonfn"}, k2 \in {"block", "while", "method"}, p \in Payloads }
CorePayloads == {"declare", "opassign", "listdestruct", "print", "closure", "method", "break", "return", "error", "rebind"}
C01ParamsThorough ==
    C01Params \cup { <<"order", kx, "-", "-", o>> : kx \in Constructs, o \in DOMAIN Orders }
    \* (depth 3 and payload pairs over a core of the payloads: the full products do not finish in the time a run has)
    \cup { <<"d3", k1, k2, k3, p>> :
             k1 \in Constructs \ {"seq"}, k2 \in Constructs \ {"seq"}, k3 \in Constructs \ {"seq", "else"}, p \in CorePayloads }
    \cup { <<"pp", k1, p1, "-", p2>> : k1 \in Constructs, p1 \in Payloads, p2 \in CorePayloads }

C01ProgOf(p) ==
    CASE p[1] = "d2" -> Env \o <<P(1)>> \o Wrap(p[2], 1, <<P(2)>> \o Wrap(p[3], 2, Payload(p[5])) \o <<P(3)>>)
                        \o <<P(4)>> \o Final
      [] p[1] = "d3" -> Env \o Wrap(p[2], 1, <<P(2)>> \o Wrap(p[3], 2, Wrap(p[4], 3, Payload(p[5])) \o <<P(5)>>)
                                              \o <<P(3)>>)
                        \o Final
      \* two payloads in sequence inside one construct (a construct depends on the rest of
      \* the program only through values and bindings)
      [] p[1] = "order" -> <<TracerDef>> \o Wrap(p[2], 1, Orders[p[5]]) \o <<P(0)>>
      [] p[1] = "pp" -> Env \o Wrap(p[2], 1, Payload(p[3]) \o <<SBlock(Payload(p[5]))>>) \o Final
=============================================================================
