------------------------------- MODULE MC_C02 -------------------------------
(***************************************************************************)
(* C02 -- evaluation never crashes.  The machine is total (TLC runs with    *)
(* deadlock checking: every reachable state has a step or ends in a         *)
(* reported diagnostic).  This model enumerates the shapes the property     *)
(* names: alias shapes (same container twice, container inside itself,      *)
(* inside its comparand, mutually, shared child, through an object) x       *)
(* every hazard operation on every ordered pair of roots; zero divisors in  *)
(* every operator form.                                                     *)
(***************************************************************************)
EXTENDS SeedMC

I(n) == EInt(n)
Nm(s) == EVar(s)
A == Nm(<<97>>)
Bv == Nm(<<98>>)
Cv == Nm(<<99>>)
KK == <<107>>
Idx0(e) == EIndex(e, I(0))

Shapes == [
  same     |-> <<SDecl(A, EList(<<I(1)>>)), SDecl(Bv, A)>>,
  self     |-> <<SDecl(A, EList(<<I(1)>>)), SAssign(Idx0(A), A), SDecl(Bv, EList(<<I(2)>>))>>,
  inside   |-> <<SDecl(A, EList(<<I(1)>>)), SDecl(Bv, EList(<<A>>))>>,
  inside2  |-> <<SDecl(A, EList(<<EList(<<>>)>>)), SDecl(Bv, EList(<<A>>))>>,
  mutual   |-> <<SDecl(A, EList(<<I(1)>>)), SDecl(Bv, EList(<<I(2)>>)), SAssign(Idx0(A), Bv), SAssign(Idx0(Bv), A)>>,
  shared   |-> <<SDecl(Cv, EList(<<I(1)>>)), SDecl(A, EList(<<Cv, Cv>>)), SDecl(Bv, EList(<<Cv>>))>>,
  twoself  |-> <<SDecl(A, EList(<<I(1)>>)), SAssign(Idx0(A), A), SDecl(Bv, EList(<<I(1)>>)), SAssign(Idx0(Bv), Bv)>>,
  selfdeep |-> <<SDecl(A, EList(<<EList(<<I(1)>>)>>)), SAssign(Idx0(Idx0(A)), A), SDecl(Bv, Idx0(A))>>,
  objself  |-> <<SDecl(A, EObj(<<Pair(EStr(KK), I(1))>>)), SAssign(EProp(A, KK), A),
                 SDecl(Bv, EObj(<<Pair(EStr(KK), I(1))>>))>>,
  objmix   |-> <<SDecl(A, EList(<<I(1)>>)), SDecl(Bv, EObj(<<Pair(EStr(KK), A)>>)), SAssign(Idx0(A), Bv)>>,
  objsame  |-> <<SDecl(A, EObj(<<Pair(EStr(KK), EList(<<I(1)>>))>>)), SDecl(Bv, A)>>,
  nested   |-> <<SDecl(A, EList(<<EList(<<I(1)>>)>>)), SDecl(Bv, Idx0(A))>>
]

Ops == {"eq", "ne", "refeq", "plus", "pluseq", "elempluseq", "elemself", "rangeself", "rangeother",
        "print", "printb", "for", "spread", "destruct", "objspread", "proppluseq", "propself",
        "callarg", "interp", "typefn", "index", "ridx", "eqnested", "forself",
        \* a construct whose sub-expressions / targets reach the container it is working on
        "objdestruct", "objdestructdeep", "destructdeep", "destructswap", "idxcall", "idxcallp", "keycall", "keycallp",
        "idxassigncall", "keyassigncall", "opassigncall", "rangecall", "method", "forbody", "spreadcall",
        "objlitcall", "destructkey",
        \* the right-hand side / a later operand touches the container the left-hand side selected
        "assignrhs", "opassignrhs", "propassignrhs", "propopassignrhs", "binoprhs", "eqrhs", "listlitcall", "interpcall",
        "rangeassignrhs", "declpatrhs", "callee"}
X == <<120>>
TF == <<116, 102>>
\* tf(p): touches p (compares it with itself, reads its type, optionally prints it) and returns r
Toucher(prints, r) ==
    SFn(TF, <<Nm(<<112>>)>>, FALSE,
        <<SPrint(EBin("==", Nm(<<112>>), Nm(<<112>>))), SPrint(ECall(ETProp(Nm(<<112>>), N_type), <<>>)),
          \* (reads the contents: an identity short-cut in == does not)
          SFor(EVar(N_us), Nm(<<112>>), <<SPrint(I(8))>>),
          SPrint(EBin("==", EList(<<Nm(<<112>>)>>), EList(<<Nm(<<112>>)>>)))>>
        \o (IF prints THEN <<SPrint(Nm(<<112>>))>> ELSE <<>>)
        \o <<SReturn(r)>>)
Op(o, x, y) ==
    CASE o = "eq"         -> <<SPrint(EBin("==", x, y))>>
      [] o = "ne"         -> <<SPrint(EBin("!=", EList(<<x>>), EList(<<y>>)))>>
      [] o = "refeq"      -> <<SPrint(EBin("===", x, y))>>
      [] o = "plus"       -> <<SDecl(Nm(X), EBin("+", x, y)), SPrint(I(0))>>
      [] o = "pluseq"     -> <<SOpAssign(x, "+", y), SPrint(I(0))>>
      [] o = "elempluseq" -> <<SOpAssign(Idx0(x), "+", y), SPrint(I(0))>>
      [] o = "elemself"   -> <<SAssign(Idx0(x), x), SPrint(I(0))>>
      [] o = "rangeself"  -> <<SAssign(ERIndex(x, I(0), ENone), x), SPrint(I(0))>>
      [] o = "rangeother" -> <<SAssign(ERIndex(x, I(0), I(1)), y), SPrint(I(0))>>
      [] o = "print"      -> <<SPrint(x)>>
      [] o = "printb"     -> <<SPrint(EList(<<y, x>>))>>
      [] o = "for"        -> <<SFor(Nm(X), x, <<SOpAssign(y, "+", EList(<<I(7)>>))>>), SPrint(I(0))>>
      [] o = "forself"    -> <<SFor(Nm(X), x, <<SAssign(Idx0(x), Nm(X))>>), SPrint(I(0))>>
      [] o = "spread"     -> <<SDecl(Nm(X), EListOf(<<Spread(x), Spread(y)>>)), SPrint(I(0))>>
      [] o = "destruct"   -> <<SAssign(EPatRest(<<Idx0(y), Nm(N_us)>>), x), SPrint(I(0))>>
      [] o = "objspread"  -> <<SDecl(Nm(X), EObj(<<PSpread(x), PSpread(y)>>)), SPrint(I(0))>>
      [] o = "proppluseq" -> <<SOpAssign(EProp(x, KK), "+", y), SPrint(I(0))>>
      [] o = "propself"   -> <<SAssign(EProp(x, KK), x), SAssign(EIndex(x, EStr(<<106>>)), y), SPrint(I(0))>>
      [] o = "callarg"    -> <<SFn(<<102>>, <<Nm(<<112>>), Nm(<<113>>)>>, FALSE,
                                   <<SAssign(Idx0(Nm(<<112>>)), Nm(<<113>>)), SReturn(EBin("==", Nm(<<112>>), Nm(<<113>>)))>>),
                               SPrint(ECall(Nm(<<102>>), <<x, y>>))>>
      [] o = "interp"     -> <<SPrint(EIStr(<<Lit(<<60>>), SlotP(0, ECall(ETProp(x, N_type), <<>>)), Lit(<<62>>)>>))>>
      [] o = "typefn"     -> <<SPrint(ECall(ETProp(Idx0(x), N_type), <<>>))>>
      [] o = "index"      -> <<SPrint(EBin("===", Idx0(x), y))>>
      [] o = "ridx"       -> <<SDecl(Nm(X), ERIndex(x, ENone, ENone)), SPrint(EBin("==", Nm(X), x))>>
      [] o = "eqnested"   -> <<SPrint(EBin("==", EObj(<<Pair(EStr(KK), x)>>), EObj(<<Pair(EStr(KK), y)>>)))>>

      [] o = "objdestruct"     -> <<SAssign(EObj(<<Pair(EStr(KK), EProp(x, <<106>>))>>), y), SPrint(I(0))>>
      [] o = "objdestructdeep" -> <<SDecl(EObj(<<Pair(EStr(KK), EObj(<<Pair(EStr(KK), Nm(X))>>))>>), x), SPrint(I(0))>>
      [] o = "destructdeep"    -> <<SDecl(EPatRest(<<EPatRest(<<Nm(X), Nm(N_us)>>), Nm(N_us)>>), x), SPrint(I(0))>>
      [] o = "destructswap"    -> <<SAssign(EPatRest(<<Idx0(x), Nm(N_us)>>), y), SAssign(EPatRest(<<Idx0(y), Nm(N_us)>>), x), SPrint(I(0))>>
      [] o = "idxcall"         -> <<Toucher(FALSE, I(0)), SPrint(EBin("===", EIndex(x, ECall(Nm(TF), <<y>>)), y))>>
      [] o = "idxcallp"        -> <<Toucher(TRUE, I(0)), SPrint(EBin("===", EIndex(x, ECall(Nm(TF), <<y>>)), y))>>
      [] o = "keycall"         -> <<Toucher(FALSE, EStr(KK)), SPrint(EBin("===", EIndex(x, ECall(Nm(TF), <<y>>)), y))>>
      [] o = "keycallp"        -> <<Toucher(TRUE, EStr(KK)), SPrint(EBin("===", EIndex(x, ECall(Nm(TF), <<y>>)), y))>>
      [] o = "idxassigncall"   -> <<Toucher(FALSE, I(0)), SAssign(EIndex(x, ECall(Nm(TF), <<y>>)), ECall(Nm(TF), <<x>>)), SPrint(I(0))>>
      [] o = "keyassigncall"   -> <<Toucher(TRUE, EStr(KK)), SAssign(EIndex(x, ECall(Nm(TF), <<y>>)), ECall(Nm(TF), <<x>>)), SPrint(I(0))>>
      [] o = "opassigncall"    -> <<Toucher(FALSE, I(0)), SOpAssign(EIndex(x, ECall(Nm(TF), <<y>>)), "+", EList(<<ECall(Nm(TF), <<x>>)>>)), SPrint(I(0))>>
      [] o = "rangecall"       -> <<Toucher(FALSE, I(0)), SDecl(Nm(X), ERIndex(x, ECall(Nm(TF), <<y>>), ENone)),
                                    SAssign(ERIndex(x, ECall(Nm(TF), <<y>>), ECall(Nm(TF), <<x>>)), EList(<<>>)), SPrint(I(0))>>
      [] o = "method"          -> <<SAssign(EIndex(x, EStr(<<109>>)),
                                            EFunc(<<Nm(<<112>>)>>, FALSE,
                                                  <<SPrint(EBin("==", Nm(<<112>>), EVar(N_this))),
                                                    SAssign(EProp(EVar(N_this), <<110>>), Nm(<<112>>)), SReturn(I(3))>>)),
                                    SPrint(ECall(EProp(x, <<109>>), <<y>>)), SPrint(ECall(EIndex(x, EStr(<<109>>)), <<x>>))>>
      [] o = "forbody"         -> <<SFor(Nm(X), x, <<SPrint(EBin("==", x, y)), SPrint(ECall(ETProp(Nm(X), N_type), <<>>))>>),
                                    SFor(Nm(X), y, <<SAssign(Idx0(x), Nm(X))>>), SPrint(I(0))>>
      [] o = "spreadcall"      -> <<SFn(TF, <<Nm(<<112>>), Nm(<<113>>)>>, TRUE,
                                        <<SPrint(EBin("==", Nm(<<113>>), Nm(<<112>>))), SReturn(Nm(<<113>>))>>),
                                    SDecl(Nm(X), ECallOf(Nm(TF), <<Item(y), Spread(x)>>)), SPrint(EBin("===", Nm(X), x))>>
      [] o = "objlitcall"      -> <<Toucher(FALSE, EStr(KK)),
                                    SDecl(Nm(X), EObj(<<PSpread(x), Pair(ECall(Nm(TF), <<x>>), y), PSpread(y)>>)), SPrint(I(0))>>
      [] o = "destructkey"     -> <<Toucher(FALSE, EStr(KK)),
                                    SDecl(EObj(<<Pair(ECall(Nm(TF), <<x>>), Nm(X))>>), y), SPrint(I(0))>>

      [] o = "assignrhs"       -> <<Toucher(FALSE, I(4)), SAssign(Idx0(x), ECall(Nm(TF), <<y>>)), SPrint(I(0))>>
      [] o = "opassignrhs"     -> <<Toucher(FALSE, EList(<<I(4)>>)), SOpAssign(Idx0(x), "+", ECall(Nm(TF), <<y>>)), SPrint(I(0))>>
      [] o = "propassignrhs"   -> <<Toucher(TRUE, I(4)), SAssign(EProp(x, KK), ECall(Nm(TF), <<y>>)), SPrint(I(0))>>
      [] o = "propopassignrhs" -> <<Toucher(FALSE, EList(<<I(4)>>)), SOpAssign(EIndex(x, EStr(KK)), "+", ECall(Nm(TF), <<y>>)), SPrint(I(0))>>
      [] o = "binoprhs"        -> <<Toucher(FALSE, I(4)), SDecl(Nm(X), EBin("+", x, EList(<<ECall(Nm(TF), <<y>>)>>))), SPrint(I(0))>>
      [] o = "eqrhs"           -> <<Toucher(FALSE, I(4)), SPrint(EBin("==", x, EList(<<ECall(Nm(TF), <<y>>)>>)))>>
      [] o = "listlitcall"     -> <<Toucher(FALSE, I(4)), SDecl(Nm(X), EListOf(<<Spread(x), Item(ECall(Nm(TF), <<y>>)), Spread(y)>>)), SPrint(I(0))>>
      [] o = "interpcall"      -> <<Toucher(FALSE, EStr(<<115>>)),
                                    SPrint(EIStr(<<Lit(<<60>>), SlotP(0, ECall(ETProp(x, N_type), <<>>)), Lit(<<45>>),
                                                   SlotP(0, ECall(Nm(TF), <<y>>)), Lit(<<62>>)>>))>>
      [] o = "rangeassignrhs"  -> <<Toucher(FALSE, EList(<<I(4)>>)), SAssign(ERIndex(x, I(0), I(1)), ECall(Nm(TF), <<y>>)), SPrint(I(0))>>
      [] o = "declpatrhs"      -> <<Toucher(FALSE, EList(<<I(4), I(5)>>)),
                                    SAssign(EPat(<<Idx0(x), EProp(y, KK)>>), ECall(Nm(TF), <<x>>)), SPrint(I(0))>>
      [] o = "callee"          -> <<Toucher(FALSE, I(0)),
                                    SAssign(EIndex(x, EStr(<<109>>)), EFunc(<<Nm(<<112>>)>>, FALSE, <<SReturn(Nm(<<112>>))>>)),
                                    SPrint(ECall(EIndex(x, EStr(<<109>>)), <<ECall(Nm(TF), <<x>>)>>)),
                                    SPrint(ECall(EIndex(EList(<<ECall(Nm(TF), <<y>>)>>), ECall(Nm(TF), <<x>>)), <<>>))>>

\* zero divisors (and a zero dividend) in every operator form
ZeroForms == {"plain", "var", "elem", "prop"}
ZeroProg(op, form, n, d) ==
    CASE form = "plain" -> <<SPrint(EBin(op, I(n), I(d)))>>
      [] form = "var"   -> <<SDecl(A, I(n)), SOpAssign(A, op, I(d)), SPrint(A)>>
      [] form = "elem"  -> <<SDecl(A, EList(<<I(n)>>)), SOpAssign(Idx0(A), op, I(d)), SPrint(A)>>
      [] form = "prop"  -> <<SDecl(A, EObj(<<Pair(EStr(KK), I(n))>>)), SOpAssign(EProp(A, KK), op, I(d)), SPrint(A)>>

\* parameter tuples <<family, shape-or-op, op-or-form, order-or-n, d>>
C02Params ==
    { <<"alias", sh, o, ord, 0>> : sh \in DOMAIN Shapes, o \in Ops, ord \in {"ab", "ba", "aa"} }
    \cup { <<"zero", op, f, n, d>> : op \in {"/", "%"}, f \in ZeroForms, n \in {-7, 0, 7}, d \in {-2, 0, 3} }

\* printing a value while a construct is working on it (never "contains itself" for a value that does not)
PrintOps == {"idxcallp", "keycallp", "keyassigncall", "print", "printb", "forbody", "method", "callarg", "destructkey",
             "objlitcall", "spreadcall"}
C02PrintParams ==
    { <<"alias", sh, o, ord, 0>> : sh \in {"same", "inside", "inside2", "shared", "objsame", "nested"}, o \in PrintOps,
                                   ord \in {"ab", "ba", "aa"} }
C02ProgOf(p) ==
    CASE p[1] = "alias" ->
            Shapes[p[2]] \o
            (CASE p[4] = "ab" -> Op(p[3], A, Bv) [] p[4] = "ba" -> Op(p[3], Bv, A) [] p[4] = "aa" -> Op(p[3], A, A))
            \o <<SPrint(I(1))>>
      [] p[1] = "zero" -> ZeroProg(p[2], p[3], p[4], p[5])

\* a zero divisor is a reported diagnostic naming the operation and operands; any
\* other division is exact
ZeroRule ==
    (status.k # "running" /\ pi[1] = "zero") =>
        IF pi[5] = 0 THEN status.k = "failed" /\ status.diag.kind = "IntOverflow"
        ELSE status.k = "done"
=============================================================================
