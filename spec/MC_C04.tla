------------------------------- MODULE MC_C04 -------------------------------
(***************************************************************************)
(* C04 -- lexical scoping; closures capture their defining scope by        *)
(* reference.  All well-formed token sequences up to a bound over          *)
(*   D  x := k      A  x = k      R  print(x)     Dy y := k   Ry print(y)  *)
(*   {  open block  F{ open `fn f() {`           L{ open `for _ in [1,2] {`*)
(*   }  close       C  f()()      C1 f()          S  guarded recursion     *)
(* where every `fn f` body ends by returning a closure that updates and    *)
(* prints x -- so `f()()` runs a closure after its defining scope ended.   *)
(***************************************************************************)
EXTENDS SeedMC

CONSTANTS TokLen

NX == <<120>>
NY == <<121>>
NF == <<102>>
ND == <<100>>
x == EVar(NX)
y == EVar(NY)
Toks == {"D", "A", "R", "Dy", "Ry", "{", "F{", "L{", "}", "C", "C1", "S"}
Openers == {"{", "F{", "L{"}

Simple(t, i) ==
    CASE t = "D"  -> SDecl(x, EInt(i))
      [] t = "A"  -> SAssign(x, EInt(10 + i))
      [] t = "R"  -> SPrint(x)
      [] t = "Dy" -> SDecl(y, EInt(20 + i))
      [] t = "Ry" -> SPrint(y)
      [] t = "C"  -> SExpr(ECall(ECall(EVar(NF), <<>>), <<>>))
      [] t = "C1" -> SExpr(ECall(EVar(NF), <<>>))
      [] t = "S"  -> SIf(EBin(">", EVar(ND), EInt(0)),
                         <<SOpAssign(EVar(ND), "-", EInt(1)), SExpr(ECall(EVar(NF), <<>>))>>)

Closure == SReturn(EFunc(<<>>, FALSE, <<SOpAssign(x, "+", EInt(100)), SPrint(x)>>))

Compound(t, body) ==
    CASE t = "{"  -> SBlock(body)
      [] t = "F{" -> SFn(NF, <<>>, FALSE, body \o <<Closure>>)
      [] t = "L{" -> SFor(EVar(N_us), EList(<<EInt(1), EInt(2)>>), body)

\* recursive descent over the token sequence; ok = balanced and no empty block
RECURSIVE ParseFrom(_, _, _)
ParseFrom(toks, i, depth) ==
    IF i > Len(toks) THEN [ss |-> <<>>, i |-> i, ok |-> depth = 0]
    ELSE LET t == toks[i] IN
         IF t = "}" THEN [ss |-> <<>>, i |-> i + 1, ok |-> depth > 0]
         ELSE IF t \in Openers THEN
             LET inner == ParseFrom(toks, i + 1, depth + 1)
                 rest == ParseFrom(toks, inner.i, depth) IN
             [ss |-> <<Compound(t, inner.ss)>> \o rest.ss, i |-> rest.i,
              ok |-> inner.ok /\ rest.ok /\ inner.ss # <<>> /\ inner.i <= Len(toks) + 1
                     /\ toks[inner.i - 1] = "}"]
         ELSE LET rest == ParseFrom(toks, i + 1, depth) IN
              [ss |-> <<Simple(t, i)>> \o rest.ss, i |-> rest.i, ok |-> rest.ok]

RECURSIVE TokSeqs(_)
TokSeqs(n) == IF n = 0 THEN {<<>>} ELSE {<<t>> \o s : t \in Toks, s \in TokSeqs(n - 1)}

Balanced(s) ==
    /\ Cardinality({i \in 1 .. Len(s) : s[i] \in Openers}) = Cardinality({i \in 1 .. Len(s) : s[i] = "}"})
    /\ s[Len(s)] \notin Openers /\ s[1] # "}"
WellFormed(s) == Balanced(s) /\ ParseFrom(s, 1, 0).ok /\ ParseFrom(s, 1, 0).i = Len(s) + 1

\* parameter tuples <<"toks", token sequence>>
C04Params == { <<"toks", s>> : s \in {q \in UNION {TokSeqs(n) : n \in 1 .. TokLen} : WellFormed(q)} }

C04ProgOf(p) == <<SDecl(EVar(ND), EInt(1))>> \o ParseFrom(p[2], 1, 0).ss \o <<SPrint(EInt(0))>>
=============================================================================
