------------------------------- MODULE MC_C04 -------------------------------
(***************************************************************************)
(* C04 -- lexical scoping; closures capture their defining scope by        *)
(* reference.  Programs are token sequences over                           *)
(*   D  x := k      A  x = k      R  print(x)     Dy y := k   Ry print(y)  *)
(*   {  open block  I{ open `if true {`  L{ open `for _ in [1,2] {`        *)
(*   W{ open a two-iteration `while`     F{ open `fn f() {`      } close   *)
(*   C  f()()       C1 f()        S  guarded recursion                     *)
(*   Q  push a closure over the *current* scope onto the global list fs    *)
(* Every `fn f` body ends by returning a closure that updates and prints   *)
(* x (so `f()()` runs a closure after its defining scope ended), and every *)
(* program ends by calling all closures in fs (closures created in a       *)
(* block / iteration / call that has ended: they must still see their own  *)
(* bindings -- fresh per iteration and per call).                          *)
(*   toks    every well-formed sequence up to TokLen over the alphabet     *)
(*   vanish  a declaration inside every kind of construct, first thing in  *)
(*           every kind of context, read after the construct ended         *)
(*   fresh   closures created per iteration / per call, called at the end  *)
(*   random  seeded longer sequences supplied by the harness               *)
(***************************************************************************)
EXTENDS SeedMC, IOUtils

CONSTANTS TokLen, Alphabet

NX == <<120>>
NY == <<121>>
NF == <<102>>
ND == <<100>>
FS == <<102, 115>>
x == EVar(NX)
y == EVar(NY)
AllToks == {"D", "A", "R", "Dy", "Ry", "{", "I{", "F{", "L{", "W{", "}", "C", "C1", "S", "Q", "Dx", "Fr", "G", "Cg",
            "T{", "K", "B", "Sw", "So", "Lx{", "Ox{", "E{", "Sr", "Qf"}
SmallToks == {"D", "A", "R", "{", "F{", "L{", "W{", "}", "C", "Q"}
Openers == {"{", "I{", "F{", "L{", "W{", "T{", "Lx{", "Ox{", "E{"}
TK == <<116, 107>>
TICK == <<116, 105, 99, 107>>
WN(i) == <<119, 48 + (i % 10), 48 + (i \div 10)>>

ClosureBody == <<SOpAssign(x, "+", EInt(100)), SPrint(x)>>
Simple(t, i) ==
    CASE t = "D"  -> SDecl(x, EInt(i))
      [] t = "A"  -> SAssign(x, EInt(10 + i))
      [] t = "R"  -> SPrint(x)
      [] t = "Dy" -> SDecl(y, EInt(20 + i))
      [] t = "Ry" -> SPrint(y)
      [] t = "C"  -> SExpr(ECall(ECall(EVar(NF), <<>>), <<>>))
      [] t = "C1" -> SExpr(ECall(EVar(NF), <<>>))
      [] t = "S"  -> SIf(EBin(">", EVar(ND), EInt(0)),
                         <<SOpAssign(EVar(ND), "-", EInt(1)), SExpr(ECall(EVar(NF), <<>>))>>)
      [] t = "Q"  -> SOpAssign(EVar(FS), "+", EList(<<EFunc(<<>>, FALSE, ClosureBody)>>))
      [] t = "K"  -> SContinue
      [] t = "B"  -> SBreak
      \* several names in one assignment, living in different scopes
      [] t = "Sw" -> SAssign(EPat(<<x, y>>), EList(<<EBin("+", y, EInt(1)), EBin("+", x, EInt(2))>>))
      [] t = "So" -> SAssign(EObj(<<Pair(EStr(<<97>>), x), Pair(EStr(<<98>>), y)>>),
                             EObj(<<Pair(EStr(<<97>>), EBin("+", y, EInt(3))), Pair(EStr(<<98>>), EBin("+", x, EInt(4)))>>))
      \* the rest of an object pattern is assigned like the other targets (no new binding)
      [] t = "Sr" -> SAssign(EObj(<<Pair(EStr(<<97>>), x), PCollect(y)>>),
                             EObj(<<Pair(EStr(<<97>>), EBin("+", x, EInt(5))), Pair(EStr(<<98>>), EInt(6))>>))
      [] t = "Qf" -> SOpAssign(EVar(FS), "+", EList(<<EVar(NF)>>))        \* fs += [f]: the named function escapes
      [] t = "Dx" -> SDecl(x, EBin("+", x, EInt(1000)))                  \* the right-hand side reads the outer x
      [] t = "Fr" -> SAssign(EVar(NF), EFunc(<<>>, FALSE, <<SPrint(EInt(777)), SReturn(EFunc(<<>>, FALSE, <<SPrint(EInt(778))>>))>>))
      [] t = "G"  -> SDecl(EVar(<<103, 103>>), EVar(NF))                  \* gg := f
      [] t = "Cg" -> SExpr(ECall(ECall(EVar(<<103, 103>>), <<>>), <<>>))  \* gg()()

Compound(t, i, body) ==        \* a sequence of statements
    CASE t = "{"  -> <<SBlock(body)>>
      [] t = "I{" -> <<SIf(EBool(TRUE), body)>>
      \* `if tick() {`: true on every other evaluation (first, third, ...)
      [] t = "T{" -> <<SIf(ECall(EVar(TICK), <<>>), body)>>
      [] t = "E{" -> <<SIfOf(<<Branch(EBool(FALSE), <<SDecl(x, EInt(-1))>>)>>, Else(body))>>
      [] t = "F{" -> <<SFn(NF, <<>>, FALSE, body \o <<SReturn(EFunc(<<>>, FALSE, ClosureBody))>>)>>
      [] t = "L{" -> <<SFor(EVar(N_us), EList(<<EInt(1), EInt(2)>>), body)>>
      \* the loop variable is x itself: every iteration has its own x (closures made in the body keep theirs)
      [] t = "Lx{" -> <<SFor(EPat(<<EVar(N_us), x>>), EList(<<EInt(7), EInt(8)>>), body)>>
      [] t = "Ox{" -> <<SFor(EPat(<<y, x>>), EObj(<<Pair(EStr(<<98>>), EInt(5)), Pair(EStr(<<97>>), EInt(6))>>), body)>>
      [] t = "W{" -> <<SDecl(EVar(WN(i)), EInt(0)),
                       SWhile(EBin("<", EVar(WN(i)), EInt(2)), <<SOpAssign(EVar(WN(i)), "+", EInt(1))>> \o body)>>

\* recursive descent over the token sequence; ok = balanced and no empty block
RECURSIVE ParseFrom(_, _, _)
ParseFrom(toks, i, depth) ==
    IF i > Len(toks) THEN [ss |-> <<>>, i |-> i, ok |-> depth = 0]
    ELSE LET t == toks[i] IN
         IF t = "}" THEN [ss |-> <<>>, i |-> i + 1, ok |-> depth > 0]
         ELSE IF t \in Openers THEN
             LET inner == ParseFrom(toks, i + 1, depth + 1)
                 rest == ParseFrom(toks, inner.i, depth) IN
             [ss |-> Compound(t, i, inner.ss) \o rest.ss, i |-> rest.i,
              ok |-> inner.ok /\ rest.ok /\ inner.ss # <<>> /\ inner.i <= Len(toks) + 1
                     /\ toks[inner.i - 1] = "}"]
         ELSE LET rest == ParseFrom(toks, i + 1, depth) IN
              [ss |-> <<Simple(t, i)>> \o rest.ss, i |-> rest.i, ok |-> rest.ok]

RECURSIVE TokSeqs(_, _)
TokSeqs(n, alpha) == IF n = 0 THEN {<<>>} ELSE {<<t>> \o s : t \in alpha, s \in TokSeqs(n - 1, alpha)}

Balanced(s) ==
    /\ Cardinality({i \in 1 .. Len(s) : s[i] \in Openers}) = Cardinality({i \in 1 .. Len(s) : s[i] = "}"})
    /\ s[Len(s)] \notin Openers /\ s[1] # "}"
WellFormed(s) == Balanced(s) /\ ParseFrom(s, 1, 0).ok /\ ParseFrom(s, 1, 0).i = Len(s) + 1

\* targeted families
Close(ctx) == IF ctx = <<>> THEN <<>> ELSE <<"}">>
AfterCtx(ctx) == IF ctx = <<"F{">> THEN <<"C", "C1">> ELSE <<>>
Contexts == {<<>>, <<"F{">>, <<"L{">>, <<"W{">>, <<"{">>, <<"I{">>}
Vanish ==
    { pre \o ctx \o mid \o <<inner, dd, "}">> \o <<"R">> \o Close(ctx) \o AfterCtx(ctx) \o <<"R">> :
        pre \in {<<>>, <<"D">>}, ctx \in Contexts, mid \in {<<>>, <<"Dy">>}, inner \in Openers \ {"F{"}, dd \in {"D", "A"} }
Fresh ==
    { <<lp, "D", "Q", "}">> : lp \in {"L{", "W{"} }
    \cup { <<"D", lp, "A", "Q", "}">> : lp \in {"L{", "W{"} }
    \cup { <<lp, "D", "{", "Q", "}", "Q", "}">> : lp \in {"L{", "W{"} }
    \cup { <<lp, lp2, "D", "Q", "}", "}">> : lp \in {"L{", "W{"}, lp2 \in {"L{", "W{", "{", "I{"} }
    \cup { <<"F{", "D", "Q", "}", "C1", "C1">>, <<"F{", "D", "Q", "}", "C", "C">>,
           <<"D", "F{", "Q", "A", "}", "C1", "R">>, <<"F{", "D", "L{", "Q", "}", "}", "C1">>,
           <<"F{", "L{", "D", "Q", "}", "}", "C1", "C1">>, <<"L{", "F{", "D", "Q", "}", "C1", "}">>,
           <<"D", "L{", "F{", "A", "Q", "}", "C", "}", "R">> }
    \* an iteration that declares nothing (leaves by `continue`) followed by one that declares
    \cup UNION { { <<"D", lp, "T{", "Q", "K", "}", dd, "Q", "}", "R">>, <<"D", lp, "Q", "T{", "K", "}", dd, "}", "R">>,
                   <<"D", lp, "T{", "Q", "}", dd, "Q", "}", "R">>, <<"D", "Dy", lp, "T{", "Q", "K", "}", dd, "Sw", "Q", "}", "R", "Ry">>,
                   <<"D", lp, "{", "T{", "Q", "K", "}", dd, "Q", "}", "}", "R">>,
                   <<"D", lp, "T{", "K", "}", "Q", dd, "B", "}", "R">>, <<"D", "F{", "T{", "Q", "}", dd, "Q", "}", "C1", "C1", "R">> }
                 : lp \in {"L{", "W{"}, dd \in {"D", "Dx", "A"} }
\* a closure made in a nested scope before the enclosing scope declares x sees that x when called later
Late ==
    UNION { { pre \o <<o1, o2, "Q", "}", dd, "Q", "}", "R">>, pre \o <<o1, o2, o3, "Q", "}", "}", dd, "}", "R">>,
              pre \o <<o1, "Dy", o2, "Q", "}", dd, "}", "R">>, pre \o <<"F{", o2, "Q", "}", dd, "}", "C1", "R">>,
              pre \o <<o1, o2, "Q", "}", "Q", dd, "}", "R">> }
            : pre \in {<<>>, <<"D">>}, o1 \in {"{", "I{", "L{", "T{"}, o2 \in {"{", "I{", "L{", "W{"}, o3 \in {"{", "I{"},
              dd \in {"D", "Dx"} }
LoopVar ==
    UNION { { <<lp, "Q", "}", "R">>, <<"D", lp, "Q", "A", "}", "R">>, <<"D", lp, "{", "Q", "}", "Q", "}", "R">>,
              <<"D", lp, "Q", "K", "}">>, <<lp, "Q", "D", "}">>, <<"D", lp, "F{", "R", "}", "C1", "C", "}", "C">>,
              <<lp, "I{", "Q", "}", "A", "Q", "}">>, <<lp, lp, "Q", "}", "Q", "}">> } : lp \in {"Lx{", "Ox{"} }
\* one assignment to several names that live in different scopes
RestAssign ==
    { <<"D", "Dy">> \o ctx \o <<dd, "Sr", "R", "Ry">> \o Close(ctx) \o AfterCtx(ctx) \o <<"R", "Ry">> :
        ctx \in Contexts \cup {<<"T{">>, <<"E{">>}, dd \in {"D", "Dy", "R"} }
ShadowAssign ==
    { <<"D", "Dy">> \o ctx \o <<dd, sw, "R", "Ry">> \o Close(ctx) \o AfterCtx(ctx) \o <<"R", "Ry">> :
        ctx \in Contexts \cup {<<"T{">>}, dd \in {"D", "Dy"}, sw \in {"Sw", "So"} }

\* a function that refers to its own name sees the live binding of that name
SelfRef ==
    { <<"F{", "S", "}", "G", "Fr", "Cg">>, <<"F{", "S", "}", "G", "Fr", "Cg", "C">>, <<"D", "F{", "S", "R", "}", "G", "Fr", "Cg">>,
      <<"F{", "C1", "}", "Fr", "C1">>, <<"F{", "R", "}", "G", "D", "Cg", "Fr", "Cg", "C">>,
      <<"{", "F{", "S", "}", "G", "Fr", "Cg", "}">>, <<"L{", "F{", "S", "}", "G", "Fr", "Cg", "}">>,
      <<"D", "{", "Dx", "R", "}", "R">>, <<"D", "L{", "Dx", "Q", "}", "R">>, <<"D", "F{", "Dx", "}", "C", "C", "R">>,
      <<"D", "W{", "Dx", "A", "Q", "}", "R">>, <<"Dx">>, <<"D", "I{", "Dx", "{", "Dx", "R", "}", "}">> }

RandomSeqs == IF "SEED_C04_RANDOM" \in DOMAIN IOEnv THEN ndJsonDeserialize(IOEnv.SEED_C04_RANDOM) ELSE <<>>

\* parameter tuples <<family, token sequence>>
C04Params ==
    { <<"toks", s>> : s \in {q \in UNION {TokSeqs(n, AllToks) : n \in 1 .. 3} : WellFormed(q)} }
    \cup { <<"toks", s>> : s \in {q \in UNION {TokSeqs(n, Alphabet) : n \in 4 .. TokLen} : WellFormed(q)} }
    \cup { <<"vanish", s>> : s \in Vanish }
    \cup { <<"fresh", s>> : s \in Fresh }
    \cup { <<"selfref", s>> : s \in SelfRef }
    \cup { <<"shadowassign", s>> : s \in ShadowAssign }
    \cup { <<"late", s>> : s \in Late }
    \cup { <<"restassign", s>> : s \in RestAssign }
    \cup { <<"namedescape", pre \o <<o1, dd, "F{", "R", "A", "}", "Qf", "}", "R">>>> :
             pre \in {<<>>, <<"D">>}, o1 \in {"{", "I{", "L{", "W{", "T{", "E{"}, dd \in {"D", "Dy"} }
    \cup { <<"namedescape", <<"D", "F{", "D", "F{", "R", "A", "}", "Qf", "}", "C1", "C1", "R">>>>,
           <<"namedescape", <<"L{", "D", "F{", "A", "R", "}", "Qf", "Q", "}">>>> }
    \cup { <<"vanish", pre \o <<"E{", dd, "}", "R", dd2, "R">>>> : pre \in {<<>>, <<"D">>}, dd \in {"D", "A", "Dy"}, dd2 \in {"D", "Dy", "A"} }
    \cup { <<"loopvar", s>> : s \in LoopVar }
    \cup { <<"random", RandomSeqs[i].s>> : i \in {j \in 1 .. Len(RandomSeqs) : WellFormed(RandomSeqs[j].s)} }

C04ProgOf(p) ==
    <<SDecl(EVar(ND), EInt(1)), SDecl(EVar(FS), EList(<<>>)), SDecl(EVar(TK), EInt(0)),
      SFn(TICK, <<>>, FALSE, <<SAssign(EVar(TK), EBin("-", EInt(1), EVar(TK))), SReturn(EBin("==", EVar(TK), EInt(1)))>>)>>
    \o ParseFrom(p[2], 1, 0).ss
    \o <<SFor(EPat(<<EVar(N_us), EVar(<<103>>)>>), EVar(FS), <<SExpr(ECall(EVar(<<103>>), <<>>))>>), SPrint(EInt(0))>>
=============================================================================
