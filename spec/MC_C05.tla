------------------------------- MODULE MC_C05 -------------------------------
(***************************************************************************)
(* C05 -- containers are shared by reference; building operations return   *)
(* fresh ones.  Histories of alias / copy-build / mutate operations over    *)
(* variables a, b, c (lists, and an object variant), every variable and     *)
(* every identity printed at the end (and after every step for short        *)
(* histories).                                                              *)
(***************************************************************************)
EXTENDS SeedMC

CONSTANTS HistLen

A == <<97>>
Bv == <<98>>
Cv == <<99>>
Xp == <<120>>
M == <<109>>
G == <<103>>
R == <<114>>
KK == <<107>>
LL == <<108>>
a == EVar(A)
b == EVar(Bv)
cc == EVar(Cv)
I(n) == EInt(n)
Idx0(e) == EIndex(e, I(0))

ListOps == 1 .. 34
ListOp(o) ==
    CASE o = 1  -> SAssign(b, a)                                   \* alias
      [] o = 2  -> SAssign(cc, a)
      [] o = 3  -> SAssign(a, b)
      [] o = 4  -> SAssign(b, EBin("+", a, EList(<<>>)))            \* copies
      [] o = 5  -> SAssign(b, ERIndex(a, ENone, ENone))
      [] o = 6  -> SAssign(b, EListOf(<<Spread(a)>>))
      [] o = 7  -> SAssign(b, ERange(I(0), I(2)))
      [] o = 8  -> SAssign(EPatRest(<<EVar(N_us), b>>), a)           \* collected rest
      [] o = 9  -> SOpAssign(b, "+", EList(<<I(5)>>))                \* b = b + [5]: a fresh list
      [] o = 10 -> SAssign(Idx0(a), I(9))                           \* mutations
      [] o = 11 -> SAssign(Idx0(b), I(8))
      [] o = 12 -> SAssign(Idx0(cc), I(7))
      [] o = 13 -> SOpAssign(Idx0(a), "+", I(1))
      [] o = 14 -> SAssign(ERIndex(a, I(0), I(1)), EList(<<I(6)>>))
      [] o = 15 -> SExpr(ECall(EVar(M), <<b>>))                     \* through a parameter
      [] o = 16 -> SExpr(ECall(EVar(G), <<>>))                      \* through a closure
      [] o = 17 -> SAssign(cc, EList(<<a>>))                        \* stored in a container
      [] o = 18 -> SAssign(Idx0(Idx0(cc)), I(5))
      [] o = 19 -> SAssign(b, ECall(EVar(R), <<>>))                 \* returned
      [] o = 20 -> SAssign(ERIndex(b, I(0), I(1)), a)               \* element-wise copy from a
      [] o = 21 -> SOpAssign(Idx0(cc), "+", EList(<<I(5)>>))         \* element += : a fresh list in the element
      [] o = 22 -> SExpr(ECallOf(EVar(<<102, 114>>), <<Spread(a)>>))  \* spread into a rest parameter (fresh list)
      [] o = 23 -> SOpAssign(a, "+", EList(<<>>))                    \* a = a + [] : fresh even when nothing is added
      [] o = 24 -> SAssign(cc, EListOf(<<Item(b), Spread(a)>>))
      \* copy-builds whose operand is an expression that yields an existing list (a call, an element)
      [] o = 25 -> SAssign(b, EBin("+", ECall(EVar(R), <<>>), EList(<<I(5)>>)))
      [] o = 26 -> SAssign(b, EBin("+", EList(<<I(5)>>), ECall(EVar(R), <<>>)))
      [] o = 27 -> SAssign(b, ERIndex(ECall(EVar(R), <<>>), ENone, ENone))
      [] o = 28 -> SAssign(b, EListOf(<<Spread(ECall(EVar(R), <<>>))>>))
      [] o = 29 -> SAssign(b, EBin("+", Idx0(EList(<<a>>)), EList(<<>>)))
      \* a pattern whose first target writes into the list being destructured: the second item is read afterwards
      [] o = 30 -> SAssign(EPatRest(<<EIndex(cc, I(1)), b, EVar(N_us)>>), cc)
      [] o = 31 -> SAssign(EPat(<<Idx0(a), cc>>), EList(<<b, a>>))
      \* a list stored into itself / into a list that is stored into it: aliases, never copies
      [] o = 32 -> SAssign(Idx0(a), a)
      [] o = 33 -> SAssign(cc, EList(<<a>>))
      [] o = 34 -> SAssign(Idx0(a), cc)

ObjOps == 1 .. 18
Kp(e) == EProp(e, KK)
ObjOp(o) ==
    CASE o = 1  -> SAssign(b, a)
      [] o = 2  -> SAssign(cc, a)
      [] o = 3  -> SAssign(b, EObj(<<PSpread(a)>>))                  \* copies
      [] o = 4  -> SAssign(EObj(<<PCollect(b)>>), a)                 \* collected rest
      [] o = 5  -> SAssign(Kp(a), I(9))                             \* mutations
      [] o = 6  -> SAssign(EIndex(b, EStr(KK)), I(8))
      [] o = 7  -> SOpAssign(Kp(cc), "+", I(1))
      [] o = 8  -> SAssign(EProp(b, <<110>>), I(4))                 \* add a key through b
      [] o = 9  -> SExpr(ECall(EVar(M), <<b>>))
      [] o = 10 -> SExpr(ECall(EVar(G), <<>>))
      [] o = 11 -> SAssign(cc, EObj(<<Pair(EStr(KK), a)>>))
      [] o = 12 -> SAssign(Kp(Kp(cc)), I(5))
      [] o = 13 -> SAssign(cc, EProp(a, LL))                         \* alias of the list held in a property
      [] o = 14 -> SOpAssign(EProp(a, LL), "+", EList(<<I(5)>>))     \* property += : a fresh list in the property
      [] o = 15 -> SOpAssign(EIndex(a, EStr(LL)), "+", EList(<<I(6)>>))
      [] o = 16 -> SAssign(Idx0(cc), I(7))
      [] o = 17 -> SAssign(EProp(b, LL), EProp(a, LL))               \* the same list in two objects
      [] o = 18 -> SOpAssign(EProp(b, LL), "+", EList(<<I(8)>>))

PreList ==
    <<SDecl(a, EList(<<I(1), I(2)>>)), SDecl(b, EList(<<I(3)>>)), SDecl(cc, EList(<<I(4)>>)),
      SFn(M, <<EVar(Xp)>>, FALSE, <<SAssign(Idx0(EVar(Xp)), I(70)), SAssign(EVar(Xp), EList(<<>>))>>),
      SFn(G, <<>>, FALSE, <<SAssign(Idx0(a), I(60))>>),
      SFn(R, <<>>, FALSE, <<SReturn(a)>>),
      SFn(<<102, 114>>, <<EVar(<<114, 115>>)>>, TRUE, <<SAssign(Idx0(EVar(<<114, 115>>)), I(50)), SPrint(EVar(<<114, 115>>))>>)>>
PreObj ==
    <<SDecl(a, EObj(<<Pair(EStr(KK), I(1)), Pair(EStr(LL), EList(<<I(1)>>))>>)), SDecl(b, EObj(<<Pair(EStr(KK), I(3))>>)),
      SDecl(cc, EObj(<<Pair(EStr(KK), I(4))>>)),
      SFn(M, <<EVar(Xp)>>, FALSE, <<SAssign(Kp(EVar(Xp)), I(70)), SAssign(EVar(Xp), EObj(<<>>))>>),
      SFn(G, <<>>, FALSE, <<SAssign(Kp(a), I(60))>>)>>

Observe ==
    <<SPrint(a), SPrint(b), SPrint(cc),
      SPrint(EBin("===", a, b)), SPrint(EBin("===", a, cc)), SPrint(EBin("===", b, cc))>>

\* immutable values: a copy never sees an operation on the original
Prims ==
    <<SDecl(a, I(1)), SDecl(b, a), SOpAssign(a, "+", I(1)), SPrint(a), SPrint(b),
      SDecl(EVar(<<115>>), EStr(<<120>>)), SDecl(EVar(<<116>>), EVar(<<115>>)),
      SOpAssign(EVar(<<115>>), "+", EStr(<<121>>)), SPrint(EVar(<<115>>)), SPrint(EVar(<<116>>)),
      SFn(M, <<EVar(Xp)>>, FALSE, <<SOpAssign(EVar(Xp), "+", I(5)), SPrint(EVar(Xp))>>),
      SExpr(ECall(EVar(M), <<b>>)), SPrint(b)>>

RECURSIVE Hists(_, _)
Hists(n, ops) == IF n = 0 THEN {<<>>} ELSE {<<o>> \o h : o \in ops, h \in Hists(n - 1, ops)}

\* parameter tuples <<family, history>>
C05Params ==
    { <<"list", h>> : h \in UNION {Hists(n, ListOps) : n \in 1 .. HistLen} }
    \cup { <<"obj", h>> : h \in UNION {Hists(n, ObjOps) : n \in 1 .. HistLen} }
    \cup { <<"prims", <<>>>> }

C05ProgOf(p) ==
    CASE p[1] = "list" ->
            PreList \o (IF Len(p[2]) <= 2
                        THEN Concat([i \in 1 .. Len(p[2]) |-> <<ListOp(p[2][i])>> \o Observe])
                        ELSE [i \in 1 .. Len(p[2]) |-> ListOp(p[2][i])] \o Observe)
      [] p[1] = "obj" ->
            PreObj \o (IF Len(p[2]) <= 2
                       THEN Concat([i \in 1 .. Len(p[2]) |-> <<ObjOp(p[2][i])>> \o Observe])
                       ELSE [i \in 1 .. Len(p[2]) |-> ObjOp(p[2][i])] \o Observe)
            \o <<SPrint(EBin("===", EProp(a, LL), cc))>>
      [] p[1] = "prims" -> Prims

\* `===` is true exactly between aliases: at every identity comparison the
\* answer is "same cell" (IdentityIsCell)
IdentityIsCellStep ==
    (c.m = "V" /\ HasTop("binr") /\ Top.e.op = "===" /\ status'.k = "running" /\ c'.m = "V") =>
        (c'.s.v.b <=> (Top.lv.id = c.s.v.id))
IdentityIsCell == [][IdentityIsCellStep]_mcvars
=============================================================================
