------------------------------- MODULE MC_C06 -------------------------------
(***************************************************************************)
(* C06 -- `x op= y` always equals `x = x op y`: also when the name is      *)
(* shadowed.  The target of an op-assignment is the binding a read of the  *)
(* name sees (the innermost one), wherever the statement stands: in a      *)
(* nested block, a loop body, a branch, a function body, a closure.        *)
(* Every program does the same updates twice, through `op=` on x and       *)
(* through plain assignment on y, at every level, and prints both.         *)
(***************************************************************************)
EXTENDS SeedMC

I(n) == EInt(n)
x == EVar(<<120>>)
y == EVar(<<121>>)
F == <<102>>
G == <<103>>

Ops == {"+", "-", "*", "/", "%"}
Both(op, k) == <<SOpAssign(x, op, I(k)), SAssign(y, EBin(op, y, I(k)))>>
ShowXY == <<SPrint(EList(<<x, y>>))>>
Decl(n) == <<SDecl(x, I(n)), SDecl(y, I(n))>>

Nest(kind, body) ==
    CASE kind = "block" -> <<SBlock(body)>>
      [] kind = "if"    -> <<SIf(EBool(TRUE), body)>>
      [] kind = "for"   -> <<SFor(EVar(N_us), EList(<<I(1), I(2)>>), body)>>
      [] kind = "while" -> <<SDecl(EVar(<<119>>), I(0)),
                             SWhile(EBin("<", EVar(<<119>>), I(2)), <<SOpAssign(EVar(<<119>>), "+", I(1))>> \o body)>>
      [] kind = "call"  -> <<SFn(G, <<>>, FALSE, body), SExpr(ECall(EVar(G), <<>>))>>
      [] kind = "closure" -> <<SDecl(EVar(G), EFunc(<<>>, FALSE, body)), SExpr(ECall(EVar(G), <<>>)), SExpr(ECall(EVar(G), <<>>))>>
NestKinds == {"block", "if", "for", "while", "call", "closure"}

\* three bindings of x (and y): global, middle, and possibly innermost; the update happens at depth `where`
ShadowProg(op, k1, k2, inner) ==
    Decl(1000)
    \o Nest(k1, Decl(50) \o Both(op, 7)
                \o Nest(k2, (IF inner THEN Decl(9) ELSE <<>>) \o Both(op, 3) \o ShowXY)
                \o Both(op, 2) \o ShowXY)
    \o Both(op, 5) \o ShowXY

\* parameter tuples <<family, op, k1, k2, inner>>
C06Params ==
    { <<"shadow", op, k1, k2, inner>> : op \in Ops, k1 \in NestKinds \ {"closure"}, k2 \in NestKinds, inner \in BOOLEAN }
C06ProgOf(p) == ShadowProg(p[2], p[3], p[4], p[5])

\* x and y always agree: every printed pair has equal components
OpAssignIsAssign ==
    (status.k # "running") =>
        /\ status.k = "done"
        /\ \A i \in 1 .. Len(out) :
              LET ls == SplitNl(out[i]) IN Len(ls) = 4 /\ ls[2] = ls[3]
=============================================================================
