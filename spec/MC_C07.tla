------------------------------- MODULE MC_C07 -------------------------------
(***************************************************************************)
(* C07 -- control flow reaches exactly its target.                         *)
(* All nestings (depth 1 and 2) of {bare block, if-true, if-false/else,    *)
(* else-if chain, while, for over list / string / object, function call},  *)
(* a jump in {none, break, continue, return} at every position of the      *)
(* innermost body and at the end of the middle body, marker prints around  *)
(* every statement so that stdout is exactly the set and order of          *)
(* statements that ran.                                                    *)
(***************************************************************************)
EXTENDS SeedMC

Cnt(d) == <<105, 48 + d>>     \* i1, i2
It(d)  == <<118, 48 + d>>     \* v1, v2
Fn(d)  == <<102, 48 + d>>     \* f1, f2
P(n)   == SPrint(EInt(n))
Xs     == <<120, 115>>        \* xs

CKinds == {"block", "ift", "iff", "elif", "while", "forl", "fors", "foro", "call"}
Jumps == {"none", "break", "continue", "return"}

J(j) == CASE j = "none" -> <<>>
          [] j = "break" -> <<SBreak>>
          [] j = "continue" -> <<SContinue>>
          [] j = "return" -> <<SReturn(EInt(7))>>

Wrap(kind, d, body) ==
    CASE kind = "block" -> <<SBlock(body)>>
      [] kind = "ift"   -> <<SIf(EBool(TRUE), body)>>
      [] kind = "iff"   -> <<SIfElse(EBool(FALSE), <<P(90 + d)>>, body)>>
      [] kind = "elif"  -> <<SIfOf(<<Branch(EBool(FALSE), <<P(80 + d)>>),
                                    Branch(EBool(TRUE), body),
                                    Branch(EBool(TRUE), <<P(82 + d)>>)>>,
                                  Else(<<P(84 + d)>>))>>
      [] kind = "while" -> <<SDecl(EVar(Cnt(d)), EInt(0)),
                             SWhile(EBin("<", EVar(Cnt(d)), EInt(2)),
                                    <<SOpAssign(EVar(Cnt(d)), "+", EInt(1))>> \o body)>>
      [] kind = "forl"  -> <<SFor(EVar(It(d)), EList(<<EInt(5), EInt(6)>>), <<P(70 + d)>> \o body)>>
      [] kind = "fors"  -> <<SFor(EVar(It(d)), EStr(<<97, 98>>), <<SPrint(EVar(It(d)))>> \o body)>>
      [] kind = "foro"  -> <<SFor(EVar(It(d)),
                                  EObj(<<Pair(EStr(<<98>>), EInt(1)), Pair(EStr(<<97>>), EInt(2))>>),
                                  <<SPrint(EVar(It(d)))>> \o body)>>
      [] kind = "call"  -> <<SFn(Fn(d), <<>>, FALSE, body), SPrint(ECall(EVar(Fn(d)), <<>>))>>

Inner(j, pos) ==
    CASE pos = 0 -> J(j) \o <<P(1), P(2)>>
      [] pos = 1 -> <<P(1)>> \o J(j) \o <<P(2)>>
      [] pos = 2 -> <<P(1), P(2)>> \o J(j)

Mutations ==
    [ setidx   |-> SAssign(EIndex(EVar(Xs), EInt(2)), EInt(9)),
      rebind   |-> SAssign(EVar(Xs), EList(<<>>)),
      append   |-> SOpAssign(EVar(Xs), "+", EList(<<EInt(4)>>)),
      setrange |-> SAssign(ERIndex(EVar(Xs), EInt(1), ENone), EList(<<EInt(8), EInt(9)>>)) ]
Nn == <<110, 110>>
RangeLoops == [
  \* the bounds of a range in the loop header are evaluated once, at loop entry
  endvar    |-> <<SDecl(EVar(Nn), EInt(3)),
                  SFor(EVar(It(1)), ERange(EInt(0), EVar(Nn)), <<SOpAssign(EVar(Nn), "-", EInt(1)), SPrint(EVar(It(1)))>>),
                  SPrint(EVar(Nn))>>,
  startvar  |-> <<SDecl(EVar(Nn), EInt(0)),
                  SFor(EVar(It(1)), ERange(EVar(Nn), EInt(3)), <<SOpAssign(EVar(Nn), "+", EInt(2)), SPrint(EVar(It(1)))>>)>>,
  endcall   |-> <<SDecl(EVar(Nn), EInt(3)), SFn(Fn(1), <<>>, FALSE, <<P(77), SReturn(EVar(Nn))>>),
                  SFor(EVar(It(1)), ERange(EInt(0), ECall(EVar(Fn(1)), <<>>)),
                       <<SOpAssign(EVar(Nn), "-", EInt(1)), SPrint(EVar(It(1)))>>)>>,
  startlit  |-> <<SFor(EVar(It(1)), ERange(EInt(2), EInt(5)), <<SPrint(EVar(It(1)))>>),
                  SFor(EPat(<<EVar(Nn), EVar(It(2))>>), ERange(EInt(-2), EInt(1)), <<SPrint(EBin("-", EVar(It(2)), EVar(Nn)))>>),
                  SDecl(EVar(Xs), ERange(EInt(3), EInt(6))),
                  SFor(EVar(It(1)), EVar(Xs), <<SPrint(EVar(It(1)))>>),
                  SFor(EVar(It(1)), ERIndex(ERange(EInt(3), EInt(9)), EInt(2), EInt(4)), <<SPrint(EVar(It(1)))>>),
                  SFor(EVar(It(1)), EStr(<<195, 169, 97>>), <<SPrint(EIndex(EVar(It(1)), EInt(0)))>>),
                  SFor(EVar(It(1)), EBin("+", EList(<<EInt(7)>>), ERange(EInt(4), EInt(6))), <<SPrint(EVar(It(1)))>>)>>,
  emptyarm  |-> <<SIfOf(<<Branch(EBool(TRUE), <<>>), Branch(EBool(TRUE), <<P(1)>>)>>, Else(<<P(2)>>)), P(3),
                  SIfOf(<<Branch(EBool(FALSE), <<P(4)>>), Branch(EBool(TRUE), <<>>), Branch(EBool(TRUE), <<P(5)>>)>>, Else(<<P(6)>>)), P(7),
                  SFor(EVar(It(1)), EList(<<EInt(1), EInt(2)>>),
                       <<SIfOf(<<Branch(EBool(TRUE), <<>>), Branch(EBool(TRUE), <<SBreak>>)>>, Else(<<SContinue>>)), P(8)>>),
                  SFn(Fn(1), <<>>, FALSE, <<SIfOf(<<Branch(EBool(TRUE), <<>>)>>, Else(<<SReturn(EInt(1))>>)), SReturn(EInt(2))>>),
                  SPrint(ECall(EVar(Fn(1)), <<>>)), SIf(EBool(TRUE), <<>>), SWhile(EBool(FALSE), <<>>), P(9)>>,
  listvar   |-> <<SDecl(EVar(Xs), EList(<<EInt(1), EInt(2)>>)),
                  SFor(EVar(It(1)), EVar(Xs), <<SAssign(EVar(Xs), EBin("+", EVar(Xs), EList(<<EInt(9)>>))), SPrint(EVar(It(1)))>>),
                  SPrint(EVar(Xs))>>,
  strvar    |-> <<SDecl(EVar(Xs), EStr(<<97, 98>>)),
                  SFor(EVar(It(1)), EVar(Xs), <<SOpAssign(EVar(Xs), "+", EStr(<<99>>)), SPrint(EVar(It(1)))>>),
                  SPrint(EVar(Xs))>>,
  \* the iterable is an expression that yields an existing list: still a snapshot
  propiter  |-> <<SDecl(EVar(Xs), EObj(<<Pair(EStr(<<108>>), EList(<<EInt(1), EInt(2), EInt(3)>>))>>)),
                  SFor(EVar(It(1)), EProp(EVar(Xs), <<108>>),
                       <<SPrint(EVar(It(1))), SAssign(EIndex(EProp(EVar(Xs), <<108>>), EInt(2)), EInt(9)),
                         SAssign(EIndex(EProp(EVar(Xs), <<108>>), EInt(1)), EInt(8))>>),
                  SPrint(EVar(Xs))>>,
  idxiter   |-> <<SDecl(EVar(Xs), EList(<<EList(<<EInt(1), EInt(2), EInt(3)>>)>>)),
                  SFor(EVar(It(1)), EIndex(EVar(Xs), EInt(0)),
                       <<SPrint(EVar(It(1))), SAssign(EIndex(EIndex(EVar(Xs), EInt(0)), EInt(2)), EInt(9))>>)>>,
  calliter  |-> <<SDecl(EVar(Xs), EList(<<EInt(1), EInt(2), EInt(3)>>)), SFn(Fn(1), <<>>, FALSE, <<SReturn(EVar(Xs))>>),
                  SFor(EVar(It(1)), ECall(EVar(Fn(1)), <<>>),
                       <<SPrint(EVar(It(1))), SAssign(EIndex(EVar(Xs), EInt(2)), EInt(9)), SAssign(EIndex(EVar(Xs), EInt(1)), EInt(8))>>)>>,
  pareniter |-> <<SDecl(EVar(Xs), EList(<<EInt(1), EInt(2), EInt(3)>>)),
                  SFor(EVar(It(1)), EIndex(EList(<<EVar(Xs)>>), EInt(0)),
                       <<SPrint(EVar(It(1))), SAssign(ERIndex(EVar(Xs), EInt(1), ENone), EList(<<EInt(8), EInt(9)>>))>>)>>,
  objiter   |-> <<SDecl(EVar(Xs), EObj(<<Pair(EStr(<<111>>), EObj(<<Pair(EStr(<<97>>), EInt(1)), Pair(EStr(<<98>>), EInt(2))>>))>>)),
                  SFor(EVar(It(1)), EProp(EVar(Xs), <<111>>),
                       <<SPrint(EVar(It(1))), SAssign(EProp(EProp(EVar(Xs), <<111>>), <<98>>), EInt(9)),
                         SAssign(EProp(EProp(EVar(Xs), <<111>>), <<99>>), EInt(7))>>)>>,
  whilecond |-> <<SDecl(EVar(Nn), EInt(0)), SFn(Fn(1), <<>>, FALSE, <<P(77), SReturn(EBin("<", EVar(Nn), EInt(2)))>>),
                  SWhile(ECall(EVar(Fn(1)), <<>>), <<SOpAssign(EVar(Nn), "+", EInt(1)),
                                                     SIf(EBin("==", EVar(Nn), EInt(2)), <<SContinue>>), P(1)>>),
                  SPrint(EVar(Nn))>>,
  whilecontinuelast |-> <<SDecl(EVar(Nn), EInt(0)),
                  SWhile(EBin("<", EVar(Nn), EInt(3)), <<SOpAssign(EVar(Nn), "+", EInt(1)), SPrint(EVar(Nn)),
                                                          SIf(EBin(">=", EVar(Nn), EInt(2)), <<SContinue>>), P(50)>>),
                  SPrint(EVar(Nn))>> ]

\* a jump taken on one iteration only (`tick()` is true on every other evaluation), after a declaration in
\* the body: the next iteration starts clean, the statements after the jump are skipped once
TK == <<116, 107>>
TICK == <<116, 105, 99, 107>>
TickDef == <<SDecl(EVar(TK), EInt(0)),
             SFn(TICK, <<>>, FALSE, <<SAssign(EVar(TK), EBin("-", EInt(1), EVar(TK))), SReturn(EBin("==", EVar(TK), EInt(1)))>>)>>
Guards == {"first", "second"}
Dv == <<100, 118>>
CondBody(g, j, pos) ==
    LET jump == IF g = "first" THEN <<SIf(ECall(EVar(TICK), <<>>), J(j))>>
                ELSE <<SIfElse(ECall(EVar(TICK), <<>>), <<P(9)>>, J(j))>> IN
    CASE pos = 0 -> jump \o <<SDecl(EVar(Dv), EInt(1)), P(1)>>
      [] pos = 1 -> <<SDecl(EVar(Dv), EInt(1)), P(1)>> \o jump \o <<SFn(<<104>>, <<>>, FALSE, <<>>), P(2)>>
      [] pos = 2 -> <<SDecl(EVar(Dv), EInt(1))>> \o jump \o <<SOpAssign(EVar(Dv), "+", EInt(1)), SPrint(EVar(Dv))>>
Loops == {"while", "forl", "fors", "foro"}

\* parameter tuples: <<family, k1, k2, k3, j, pos, j2>>
C07Params ==
    { <<"d1", k1, "-", "-", j, pos, "none">> : k1 \in CKinds, j \in Jumps, pos \in 0 .. 2 }
    \cup { <<"d2", k1, k2, "-", j, pos, j2>> :
             k1 \in CKinds, k2 \in CKinds, j \in Jumps \ {"none"}, pos \in {0, 1}, j2 \in Jumps }
    \cup { <<"mutl", m, "-", "-", "none", 0, "none">> : m \in DOMAIN Mutations }
    \cup { <<"muto", "-", "-", "-", "none", 0, "none">> }
    \cup { <<"rloop", r, "-", "-", "none", 0, "none">> : r \in DOMAIN RangeLoops }
    \* a chain of three arms in a function body, each arm escaping or not, the arm taken by the argument;
    \* statements follow the chain
    \cup { <<"tail", e1, e2, e3, "none", arm, "none">> : e1 \in BOOLEAN, e2 \in BOOLEAN, e3 \in BOOLEAN, arm \in 1 .. 3 }
    \cup { <<"cond", k1, k2, g, j, pos, "none">> :
             k1 \in Loops, k2 \in {"-", "block", "ift", "elif", "forl", "while", "call"}, g \in Guards,
             j \in Jumps \ {"none"}, pos \in 0 .. 2 }

C07ParamsThorough ==
    C07Params
    \cup { <<"d3", k1, k2, k3, j, 1, j2>> :
             k1 \in CKinds, k2 \in CKinds, k3 \in CKinds, j \in Jumps \ {"none"},
             j2 \in {"none", "break"} }

C07ProgOf(p) ==
    CASE p[1] = "d1" -> <<P(5)>> \o Wrap(p[2], 1, Inner(p[5], p[6])) \o <<P(6)>>
      [] p[1] = "d2" -> <<P(5)>>
                        \o Wrap(p[2], 1, <<P(3)>> \o Wrap(p[3], 2, Inner(p[5], p[6])) \o <<P(4)>> \o J(p[7]))
                        \o <<P(6)>>
      [] p[1] = "d3" -> <<P(5)>>
                        \o Wrap(p[2], 1,
                                <<P(3)>>
                                \o Wrap(p[3], 2, <<P(7)>> \o Wrap(p[4], 3, Inner(p[5], p[6])) \o <<P(8)>> \o J(p[7]))
                                \o <<P(4)>>)
                        \o <<P(6)>>
      \* loop bodies that mutate the iterated container: the loop walks the snapshot
      [] p[1] = "mutl" -> <<SDecl(EVar(Xs), EList(<<EInt(1), EInt(2), EInt(3)>>)),
                            SFor(EVar(It(1)), EVar(Xs), <<SPrint(EVar(It(1))), Mutations[p[2]]>>),
                            SPrint(EVar(Xs))>>
      [] p[1] = "rloop" -> RangeLoops[p[2]]
      [] p[1] = "tail" ->
            LET Arm(esc, n) == IF esc THEN <<P(n), SReturn(EInt(n))>> ELSE <<P(n)>> IN
            <<SFn(Fn(1), <<EVar(It(1))>>, FALSE,
                  <<SIfOf(<<Branch(EBin("==", EVar(It(1)), EInt(1)), Arm(p[2], 11)),
                            Branch(EBin("==", EVar(It(1)), EInt(2)), Arm(p[3], 12))>>, Else(Arm(p[4], 13))),
                    P(14), SBlock(<<SIfElse(EBin("==", EVar(It(1)), EInt(1)), Arm(p[2], 15), Arm(p[4], 16))>>), P(17),
                    SReturn(EInt(18))>>),
              SPrint(ECall(EVar(Fn(1)), <<EInt(p[6])>>))>>
      [] p[1] = "cond" -> TickDef \o <<P(5)>>
                          \o Wrap(p[2], 1, IF p[3] = "-" THEN CondBody(p[4], p[5], p[6])
                                           ELSE <<P(3)>> \o Wrap(p[3], 2, CondBody(p[4], p[5], p[6])) \o <<P(4)>>)
                          \o <<P(6)>>
      [] p[1] = "muto" -> <<SDecl(EVar(Xs), EObj(<<Pair(EStr(<<98>>), EInt(1))>>)),
                            SFor(EVar(It(1)), EVar(Xs),
                                 <<SPrint(EVar(It(1))),
                                   SAssign(EIndex(EVar(Xs), EStr(<<97>>)), EInt(5)),
                                   SAssign(EProp(EVar(Xs), <<98>>), EInt(6))>>),
                            SPrint(EVar(Xs))>>
=============================================================================
