INIT Init
NEXT Next
CONSTANTS
  MaxOps = 2
INVARIANTS
  UniqueGrouping
  RoundTrip
  RedundantParens
  EmitCase
CHECK_DEADLOCK FALSE
