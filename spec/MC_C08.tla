------------------------------- MODULE MC_C08 -------------------------------
(***************************************************************************)
(* C08 -- expressions group by fixed tiers, left to right; parentheses     *)
(* override.  State = one case; the laws are invariants evaluated on it,   *)
(* and one CASE line is printed per case for the conformance harness       *)
(* (the real parser's tree must equal the specification's).                *)
(*   seq    every operator sequence of length 1..MaxOps over all 16        *)
(*          operators, plain operands: the machine's result is the unique  *)
(*          well-grouped tree over that frontier                           *)
(*   forms  sequences of length 2 with one operand carrying a postfix form *)
(*          or being a negative literal                                    *)
(*   tree   every tree with <= MaxOps operators: Parse(Unparse(t)) = t     *)
(*   paren  every placement of one redundant parenthesis pair around a     *)
(*          group of the result: same tree                                 *)
(***************************************************************************)
EXTENDS SeedExprParse, Json

CONSTANTS MaxOps

RECURSIVE OpSeqs(_)
OpSeqs(n) == IF n = 0 THEN {<<>>} ELSE {<<o>> \o s : o \in BinOps, s \in OpSeqs(n - 1)}
Forms == {"call", "index", "rindex", "dot", "arrow", "neg", "int",
          "neg_call", "neg_index", "neg_rindex", "neg_dot", "neg_arrow", "dot_call", "index_arrow", "call_call"}
NegPost == [neg_call |-> "call", neg_index |-> "index", neg_rindex |-> "rindex", neg_dot |-> "dot", neg_arrow |-> "arrow"]

Operand(i, form) ==
    CASE form = "plain" -> Var(i)
      [] form = "neg" -> IntL(-i - 1)
      [] form = "int" -> IntL(i + 1)
      \* a negative literal directly in front of a postfix form: the sign belongs to the literal
      [] form \in DOMAIN NegPost -> Post(NegPost[form], IntL(-i - 1))
      [] form = "dot_call" -> Post("call", Post("dot", Var(i)))
      [] form = "index_arrow" -> Post("arrow", Post("index", Var(i)))
      [] form = "call_call" -> Post("call", Post("call", Var(i)))
      [] OTHER -> Post(form, Var(i))
Operands(n, special, form) == [i \in 1 .. n |-> Operand(i, IF i = special THEN form ELSE "plain")]
OperandToks(t) == Unparse(t, 5)
SeqToks(operands, ops) ==
    OperandToks(operands[1])
    \o FlattenSeq([i \in 1 .. Len(ops) |-> <<TOp(ops[i])>> \o OperandToks(operands[i + 1])])

Cases ==
    { <<"seq", ops, 0, "plain">> : ops \in UNION {OpSeqs(n) : n \in 1 .. MaxOps} }
    \cup { <<"forms", ops, sp, f>> : ops \in OpSeqs(2), sp \in 1 .. 3, f \in Forms }
    \cup { <<"forms", ops, sp, f>> : ops \in OpSeqs(1), sp \in 1 .. 2, f \in Forms }
    \cup { <<"forms", <<>>, 1, f>> : f \in Forms }
    \* all operands integer literals (a parser must not fold or regroup constants)
    \cup { <<"ints", ops, 0, "int">> : ops \in UNION {OpSeqs(n) : n \in 1 .. MaxOps} }

VARIABLE cs
Init == cs \in Cases
Next == UNCHANGED cs

Ops == cs[2]
Opnds == IF cs[1] = "ints" THEN [i \in 1 .. Len(Ops) + 1 |-> IntL(i + 1)] ELSE Operands(Len(Ops) + 1, cs[3], cs[4])
Toks == SeqToks(Opnds, Ops)
Result == Parse(Toks)

\* the machine's result is well grouped, has the given frontier, and is the only
\* well-grouped tree over that frontier
UniqueGrouping ==
    LET all == AllTrees(Opnds, Ops, 1, Len(Ops) + 1) IN
    /\ Result.ok
    /\ WellGrouped(Result.t)
    /\ Result.t \in all
    /\ {t \in all : WellGrouped(t)} = {Result.t}

\* writing any tree out with only the necessary parentheses and parsing it again gives it back
RoundTrip ==
    \A t \in AllTrees(Opnds, Ops, 1, Len(Ops) + 1) :
        LET r == Parse(Unparse(t, 1)) IN r.ok /\ Strip(r.t) = t

\* wrapping a sub-expression that is already a group in parentheses changes nothing
RECURSIVE Groups(_)
Groups(t) == IF t.t = "bin" THEN {t} \cup Groups(t.l) \cup Groups(t.r)
             ELSE IF t.t = "post" THEN {t} \cup Groups(t.e) ELSE {t}
RECURSIVE WrapAt(_, _)
WrapAt(t, g) ==       \* token sequence of t with group g wrapped in one more pair of parentheses
    IF t = g THEN <<TLp>> \o Unparse(t, 1) \o <<TRp>>
    ELSE CASE t.t = "bin" -> LET l == IF t.l = g THEN WrapAt(t.l, g) ELSE
                                      IF NodeTier(t.l) < Tier(t.op) THEN <<TLp>> \o WrapAt(t.l, g) \o <<TRp>> ELSE WrapAt(t.l, g)
                                 r == IF t.r = g THEN WrapAt(t.r, g) ELSE
                                      IF NodeTier(t.r) <= Tier(t.op) THEN <<TLp>> \o WrapAt(t.r, g) \o <<TRp>> ELSE WrapAt(t.r, g)
                             IN l \o <<TOp(t.op)>> \o r
           [] t.t = "post" -> WrapAt(t.e, g) \o <<TPost(t.p)>>
           [] OTHER -> Unparse(t, 1)
RedundantParens ==
    Result.ok =>
        \A g \in Groups(Result.t) :
            LET r == Parse(WrapAt(Result.t, g)) IN r.ok /\ Strip(r.t) = Strip(Result.t)

EmitCase ==
    PrintT("CASE " \o ToJson([cs |-> cs, toks |-> Toks, tree |-> Strip(Result.t)]))
EmitParens ==
    (Len(Ops) <= 2 /\ cs[1] = "seq") =>
        \A g \in Groups(Result.t) :
            PrintT("CASE " \o ToJson([cs |-> cs, toks |-> WrapAt(Result.t, g), tree |-> Strip(Result.t)]))
EmitTrees ==
    (cs[1] = "seq") =>
        \A t \in AllTrees(Opnds, Ops, 1, Len(Ops) + 1) :
            PrintT("CASE " \o ToJson([cs |-> cs, toks |-> Unparse(t, 1), tree |-> t]))
=============================================================================
