------------------------------- MODULE MC_C08E -------------------------------
(***************************************************************************)
(* C08, evaluated: the grouping the parser produced is the grouping that   *)
(* is evaluated.  Every pair of operators over integer (17, 5, 3) and      *)
(* boolean operands in the three shapes  a op1 b op2 c,  (a op1 b) op2 c,  *)
(* a op1 (b op2 c), and the four-operand shapes with one parenthesised     *)
(* inner group; the machine computes the value from the tree, the real     *)
(* interpreter must print the same.                                        *)
(***************************************************************************)
EXTENDS SeedMC

IntOps == {"+", "-", "*", "/", "%"}
CmpOps == {"<", "<=", ">", ">=", "==", "!="}
BoolOps2 == {"&&", "||"}
I(n) == EInt(n)
A == I(17)
Bb == I(5)
Cc == I(3)
Dd == I(2)
Tt == EBool(TRUE)
Ff == EBool(FALSE)

Shape(sh, o1, o2, x, y, z) ==
    CASE sh = "flat"  -> EBin(o2, EBin(o1, x, y), z)       \* what `x o1 y o2 z` means when o1 binds at least as tight
      [] sh = "left"  -> EBin(o2, EBin(o1, x, y), z)
      [] sh = "right" -> EBin(o1, x, EBin(o2, y, z))

\* parameter tuples <<family, shape, op1, op2>>
C08EParams ==
    { <<"int", sh, o1, o2>> : sh \in {"left", "right"}, o1 \in IntOps, o2 \in IntOps }
    \cup { <<"bool", sh, o1, o2>> : sh \in {"left", "right"}, o1 \in BoolOps2, o2 \in BoolOps2 }
    \cup { <<"cmp", sh, o1, o2>> : sh \in {"left", "right"}, o1 \in IntOps, o2 \in CmpOps }
    \cup { <<"four", sh, o1, o2>> : sh \in {"mid", "last", "first"}, o1 \in {"-", "/", "+"}, o2 \in {"-", "*", "%"} }
    \cup { <<"range", sh, "-", "..">> : sh \in {"left", "right"} }

C08EProgOf(p) ==
    CASE p[1] = "int"  -> <<SPrint(Shape(p[2], p[3], p[4], A, Bb, Cc))>>
      [] p[1] = "bool" -> <<SPrint(Shape(p[2], p[3], p[4], Ff, Ff, Tt)), SPrint(Shape(p[2], p[3], p[4], Tt, Ff, Ff))>>
      [] p[1] = "cmp"  -> IF p[2] = "left" THEN <<SPrint(EBin(p[4], EBin(p[3], A, Bb), Cc))>>
                          ELSE <<SPrint(EBin(p[4], A, EBin(p[3], Bb, Cc)))>>
      [] p[1] = "four" ->
            (CASE p[2] = "mid"   -> <<SPrint(EBin(p[4], EBin(p[3], A, EBin(p[3], Bb, Cc)), Dd))>>
               [] p[2] = "last"  -> <<SPrint(EBin(p[3], EBin(p[3], A, Bb), EBin(p[4], Cc, Dd)))>>
               [] p[2] = "first" -> <<SPrint(EBin(p[4], EBin(p[4], EBin(p[3], A, Bb), Cc), Dd))>>)
      [] p[1] = "range" -> IF p[2] = "left" THEN <<SPrint(ERange(EBin("-", I(2), I(1)), EBin("+", I(1), I(3))))>>
                           ELSE <<SPrint(ERange(I(1), EBin("-", I(6), EBin("-", I(3), I(1)))))>>
=============================================================================
