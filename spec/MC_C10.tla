------------------------------- MODULE MC_C10 -------------------------------
(***************************************************************************)
(* C10 -- `==` is a structural equivalence, `===` is identity, comparing   *)
(* never mutates.                                                          *)
(*                                                                         *)
(* Part 1 (ASSUME, evaluated once by TLC): the laws of the specification's *)
(* own `Eq` / `RefEq` over a pool of values in a constant heap `PH` that   *)
(* contains copies, shared children, different insertion histories (the    *)
(* heap has none: an object is a function) and self-containing cells.      *)
(* Part 2: programs that build pool values along different construction    *)
(* histories and compare every ordered pair, both ways, printing the       *)
(* operands afterwards; replayed against the implementation.               *)
(***************************************************************************)
EXTENDS SeedMC

-----------------------------------------------------------------------------
(* Part 1 *)
s0 == Slot(VInt(0))
s1 == Slot(VInt(1))
KA == <<97>>
KB == <<98>>
PH == <<
  CList(<<>>),                                  \*  1 []
  CList(<<>>),                                  \*  2 [] (copy)
  CList(<<s0>>),                                \*  3 [0]
  CList(<<s0>>),                                \*  4 [0] (copy)
  CList(<<s1>>),                                \*  5 [1]
  CList(<<s0, s1>>),                            \*  6 [0,1]
  CList(<<Slot(VNull)>>),                       \*  7 [null]
  CList(<<Slot(VStr(<<97>>))>>),                \*  8 ["a"]
  CObj(<<>>),                                   \*  9 {}
  CObj(<<>>),                                   \* 10 {} (copy)
  CObj((KA :> s0)),                             \* 11 {a:0}
  CObj((KA :> s0)),                             \* 12 {a:0} (copy)
  CObj((KA :> s1)),                             \* 13 {a:1}
  CObj((KB :> s0)),                             \* 14 {b:0}
  CObj((KA :> s0) @@ (KB :> s1)),               \* 15 {a:0,b:1}
  CList(<<Slot(VList(3))>>),                    \* 16 [[0]]
  CList(<<Slot(VList(4))>>),                    \* 17 [[0]] through the copy
  CList(<<Slot(VList(3)), Slot(VList(3))>>),    \* 18 [c,c] shared child
  CList(<<Slot(VList(3)), Slot(VList(4))>>),    \* 19 [c,c'] equal children
  CObj((KA :> Slot(VList(3)))),                 \* 20 {a:[0]}
  CObj((KA :> Slot(VList(4)))),                 \* 21 {a:[0]'}
  CList(<<Slot(VObj(11))>>),                    \* 22 [{a:0}]
  CList(<<Slot(VList(1))>>),                    \* 23 [[]]
  CList(<<Slot(VList(24))>>),                   \* 24 x = [x]
  CList(<<Slot(VList(25))>>),                   \* 25 y = [y]
  CFn(SomeName(<<102>>), <<>>, FALSE, <<>>, <<1>>),   \* 26 fn f
  CList(<<Slot(VFn(26))>>),                     \* 27 [f]
  CList(<<s1, Slot(VStr(<<97>>))>>),            \* 28 [1,"a"]
  CList(<<s1, s0>>),                            \* 29 [1,0]
  CList(<<Slot(VList(23))>>),                   \* 30 [[[]]]
  CObj((KA :> Slot(VObj(31)))),                 \* 31 o = {a:o}
  CList(<<Slot(VList(25)), s0>>)                \* 32 [y, 0]
>>
Atoms == {VNull, VBool(TRUE), VBool(FALSE), VInt(0), VInt(1), VStr(<<>>), VStr(<<97>>)}
Conts == {IF PH[i].k = "list" THEN VList(i) ELSE VObj(i) : i \in {j \in 1 .. Len(PH) : PH[j].k # "func"}}
Pool == Atoms \cup Conts \cup {VFn(26), VBuiltin(N_print)}

RECURSIVE HasFn(_, _)
HasFn(v, seen) ==          \* does the value reach a function?
    CASE v.k \in {"func", "builtin"} -> TRUE
      [] v.k = "list" -> v.id \notin seen /\ \E j \in 1 .. Len(PH[v.id].items) : HasFn(PH[v.id].items[j].v, seen \cup {v.id})
      [] v.k = "object" -> v.id \notin seen /\ \E key \in DOMAIN PH[v.id].props : HasFn(PH[v.id].props[key].v, seen \cup {v.id})
      [] OTHER -> FALSE
Data == {v \in Pool : ~HasFn(v, {})}

EqB(a, b) == Eq(a, b, PH)
IsB(r) == r.r = "bool"

EqReflexive == \A a \in Data : IsB(EqB(a, a)) /\ EqB(a, a).b
EqSymmetric == \A a \in Pool, b \in Pool : (IsB(EqB(a, b)) /\ IsB(EqB(b, a))) => EqB(a, b).b = EqB(b, a).b
EqTransitive ==
    \A a \in Data, b \in Data, cx \in Data :
        (IsB(EqB(a, b)) /\ IsB(EqB(b, cx)) /\ IsB(EqB(a, cx)) /\ EqB(a, b).b /\ EqB(b, cx).b) => EqB(a, cx).b
EqCopies == /\ EqB(VList(1), VList(2)).b /\ EqB(VList(3), VList(4)).b /\ EqB(VObj(9), VObj(10)).b
            /\ EqB(VObj(11), VObj(12)).b /\ EqB(VList(16), VList(17)).b /\ EqB(VList(18), VList(19)).b
            /\ EqB(VObj(20), VObj(21)).b /\ EqB(VList(24), VList(25)).b
\* a mismatch of kinds (or two functions) is an error naming both types, never a boolean
EqErrNamesTypes ==
    \A a \in Pool, b \in Pool :
        LET r == EqB(a, b) IN
        r.r = "err" => r.lt \in {"null", "bool", "int", "string", "list", "object", "func"}
                       /\ r.rt \in {"null", "bool", "int", "string", "list", "object", "func"}
EqAtomKinds == \A a \in Atoms, b \in Atoms : IsB(EqB(a, b)) <=> a.k = b.k
EqFuncsError == ~IsB(EqB(VFn(26), VFn(26))) /\ ~IsB(EqB(VBuiltin(N_print), VBuiltin(N_print)))
NeIsNegation ==
    \A a \in Pool, b \in Pool :
        LET r1 == ApplyOp("==", a, b, PH)
            r2 == ApplyOp("!=", a, b, PH) IN
        IF r1.r = "val" THEN r2.r = "val" /\ r2.v.b = ~r1.v.b ELSE r2.r = "err"
RefLaws ==
    \A a \in Pool, b \in Pool :
        IF RefEqDefined(a, b)
        THEN /\ RefEq(a, b) = RefEq(b, a)
             /\ RefEq(a, a)
             /\ (RefEq(a, b) /\ a \in Data) => EqB(a, b).b
             /\ RefEq(a, b) <=> a.id = b.id
        ELSE ApplyOp("===", a, b, PH).r = "err"

ASSUME EqReflexive
ASSUME EqSymmetric
ASSUME EqTransitive
ASSUME EqCopies
ASSUME EqErrNamesTypes
ASSUME EqAtomKinds
ASSUME EqFuncsError
ASSUME NeIsNegation
ASSUME RefLaws

-----------------------------------------------------------------------------
(* Part 2: programs *)
Nm(v, i) == v \o <<48 + i>>
A == <<97>>
Bv == <<98>>
F == <<102>>
E0 == EInt(0)
E1 == EInt(1)
Ea == EStr(<<97>>)
OA(e) == EObj(<<Pair(EStr(KA), e)>>)
\* pool entries: [pre |-> statements (temporaries named after v), e |-> expression]
Ent(pre, e) == [pre |-> pre, e |-> e]
Entry(i, v) ==
    CASE i = 1  -> Ent(<<>>, ENull)
      [] i = 2  -> Ent(<<>>, EBool(TRUE))
      [] i = 3  -> Ent(<<>>, EBool(FALSE))
      [] i = 4  -> Ent(<<>>, E0)
      [] i = 5  -> Ent(<<>>, E1)
      [] i = 6  -> Ent(<<>>, EStr(<<>>))
      [] i = 7  -> Ent(<<>>, Ea)
      [] i = 8  -> Ent(<<>>, EList(<<>>))
      [] i = 9  -> Ent(<<>>, EList(<<E0>>))
      [] i = 10 -> Ent(<<>>, EList(<<E0, E1>>))
      [] i = 11 -> Ent(<<>>, EBin("+", EList(<<E0>>), EList(<<E1>>)))               \* by concatenation
      [] i = 12 -> Ent(<<>>, ERange(E0, EInt(2)))                                   \* by range
      [] i = 13 -> Ent(<<SDecl(EVar(Nm(v, 1)), EList(<<EInt(9), E1>>)),
                         SAssign(EIndex(EVar(Nm(v, 1)), E0), E0)>>, EVar(Nm(v, 1)))   \* by index assignment
      [] i = 14 -> Ent(<<>>, EList(<<E1, Ea>>))
      [] i = 15 -> Ent(<<>>, EList(<<EList(<<E0>>)>>))
      [] i = 16 -> Ent(<<SDecl(EVar(Nm(v, 1)), EList(<<E0>>))>>,
                       EList(<<EVar(Nm(v, 1)), EVar(Nm(v, 1))>>))                    \* shared child
      [] i = 17 -> Ent(<<>>, EList(<<EList(<<E0>>), EList(<<E0>>)>>))
      [] i = 18 -> Ent(<<SDecl(EVar(Nm(v, 1)), EList(<<E0>>)),
                         SAssign(EIndex(EVar(Nm(v, 1)), E0), EVar(Nm(v, 1)))>>, EVar(Nm(v, 1)))  \* x = [x]
      [] i = 19 -> Ent(<<>>, EObj(<<>>))
      [] i = 20 -> Ent(<<>>, OA(E0))
      [] i = 21 -> Ent(<<>>, OA(E1))
      [] i = 22 -> Ent(<<>>, EObj(<<Pair(EStr(KB), E0)>>))
      [] i = 23 -> Ent(<<>>, EObj(<<Pair(EStr(KA), E0), Pair(EStr(KB), E1)>>))
      [] i = 24 -> Ent(<<>>, EObj(<<Pair(EStr(KB), E1), Pair(EStr(KA), E0)>>))        \* other literal order
      [] i = 25 -> Ent(<<SDecl(EVar(Nm(v, 1)), EObj(<<>>)),
                         SAssign(EProp(EVar(Nm(v, 1)), KB), E1),
                         SAssign(EIndex(EVar(Nm(v, 1)), EStr(KA)), E0)>>, EVar(Nm(v, 1)))   \* by insertion
      [] i = 26 -> Ent(<<>>, OA(EList(<<E0>>)))
      [] i = 27 -> Ent(<<>>, OA(OA(E0)))
      [] i = 28 -> Ent(<<>>, EList(<<OA(E0)>>))
      [] i = 29 -> Ent(<<>>, EVar(F))
      [] i = 30 -> Ent(<<>>, EVar(N_print))
      [] i = 31 -> Ent(<<>>, EList(<<EVar(F)>>))
      [] i = 32 -> Ent(<<>>, EFunc(<<>>, FALSE, <<>>))
      [] i = 33 -> Ent(<<SDecl(EVar(Nm(v, 1)), OA(E0)),
                         SAssign(EProp(EVar(Nm(v, 1)), KA), EVar(Nm(v, 1)))>>, EVar(Nm(v, 1)))   \* o = {a:o}
      [] i = 34 -> Ent(<<>>, EList(<<EList(<<>>)>>))
      [] i = 35 -> Ent(<<>>, EList(<<EList(<<E0>>), EList(<<E1>>)>>))                 \* [[0],[1]]
      [] i = 36 -> Ent(<<>>, EList(<<EList(<<E1>>), EList(<<E0>>)>>))
      [] i = 37 -> Ent(<<SDecl(EVar(Nm(v, 1)), EList(<<E0>>))>>,
                       EList(<<EVar(Nm(v, 1)), EVar(Nm(v, 1)), EVar(Nm(v, 1))>>))       \* [c,c,c]
      [] i = 38 -> Ent(<<>>, EList(<<EList(<<E0>>), EList(<<E0>>), EList(<<E1>>)>>))
      [] i = 39 -> Ent(<<SDecl(EVar(Nm(v, 1)), OA(E0))>>,
                       EObj(<<Pair(EStr(KA), EVar(Nm(v, 1))), Pair(EStr(KB), EVar(Nm(v, 1)))>>))  \* {a:o,b:o}
      [] i = 40 -> Ent(<<>>, EObj(<<Pair(EStr(KA), OA(E0)), Pair(EStr(KB), OA(E1))>>))
      [] i = 41 -> Ent(<<>>, EObj(<<Pair(EStr(KA), OA(E0)), Pair(EStr(KB), OA(E0))>>))
      [] i = 42 -> Ent(<<SDecl(EVar(Nm(v, 1)), EList(<<>>))>>,
                       EList(<<EVar(Nm(v, 1)), EList(<<EVar(Nm(v, 1)), E1>>)>>))         \* [e,[e,1]]
      [] i = 43 -> Ent(<<>>, EList(<<EList(<<>>), EList(<<EList(<<>>), E1>>)>>))
      [] i = 44 -> Ent(<<>>, EList(<<EList(<<>>), EList(<<EList(<<E0>>), E1>>)>>))
NEntries == 44
ContainerEntries == (8 .. 28) \cup {31, 33, 34} \cup (35 .. 44)

Prelude == <<SFn(F, <<>>, FALSE, <<>>)>>
Build(i, v) == Entry(i, v).pre \o <<SDecl(EVar(v), Entry(i, v).e)>>

\* parameter tuples <<family, i, j>>
\* a pool value against an operand written as a literal (an interpreter may treat
\* `x == []` specially), in both orders, with == and !=
LitOperands == <<EList(<<>>), EObj(<<>>), EStr(<<>>), EInt(0), ENull, EBool(TRUE), EList(<<EInt(0)>>),
                 EObj(<<Pair(EStr(KA), EInt(0))>>), EStr(<<97>>), EList(<<EList(<<>>)>>)>>
\* sharing patterns inside both operands: children a = [1], b = [1] (a copy), c = [2], d = [2] (a copy); x is a
\* triple over {a, c}, y a triple over {a, b, c, d}; as lists and as objects.  == depends on the contents only.
CrossL == <<<<97>>, <<99>>>>                     \* a c
CrossR == <<<<97>>, <<98>>, <<99>>, <<100>>>>    \* a b c d
ChildVal(n) == IF n \in {<<97>>, <<98>>} THEN 1 ELSE 2
Triples(S) == {<<i, j, kx>> : i \in 1 .. Len(S), j \in 1 .. Len(S), kx \in 1 .. Len(S)}
CrossKeys == <<<<107>>, <<108>>, <<109>>>>
CrossBuild(S, t, asobj) ==
    IF asobj THEN EObj([i \in 1 .. 3 |-> Pair(EStr(CrossKeys[i]), EVar(S[t[i]]))])
    ELSE EList([i \in 1 .. 3 |-> EVar(S[t[i]])])
CrossProg(tl, tr, asobj) ==
    <<SDecl(EVar(<<97>>), EList(<<EInt(1)>>)), SDecl(EVar(<<98>>), EList(<<EInt(1)>>)),
      SDecl(EVar(<<99>>), EList(<<EInt(2)>>)), SDecl(EVar(<<100>>), EList(<<EInt(2)>>)),
      SDecl(EVar(<<120>>), CrossBuild(CrossL, tl, asobj)), SDecl(EVar(<<121>>), CrossBuild(CrossR, tr, asobj)),
      SPrint(EBin("==", EVar(<<120>>), EVar(<<121>>))), SPrint(EBin("==", EVar(<<121>>), EVar(<<120>>))),
      SPrint(EBin("!=", EVar(<<120>>), EVar(<<121>>))),
      SPrint(EBin("==", EList(<<EVar(<<120>>), EVar(<<121>>)>>), EList(<<EVar(<<121>>), EVar(<<120>>)>>)))>>
CrossEqual(tl, tr) == \A i \in 1 .. 3 : ChildVal(CrossL[tl[i]]) = ChildVal(CrossR[tr[i]])
\* two evaluations of a building construct give two containers (=== false), however little they hold
Fresh2 == [
  lit      |-> <<EList(<<>>), EList(<<>>)>>,
  rest     |-> <<EVar(<<114, 49>>), EVar(<<114, 50>>)>>,          \* the empty rests of two list patterns
  objrest  |-> <<EVar(<<113, 49>>), EVar(<<113, 50>>)>>,          \* the empty rests of two object patterns
  slice    |-> <<ERIndex(EList(<<EInt(1)>>), EInt(1), ENone), ERIndex(EList(<<EInt(1)>>), EInt(1), ENone)>>,
  range    |-> <<ERange(EInt(3), EInt(3)), ERange(EInt(3), EInt(3))>>,
  concat   |-> <<EBin("+", EList(<<>>), EList(<<>>)), EBin("+", EList(<<>>), EList(<<>>))>>,
  spread   |-> <<EListOf(<<Spread(EList(<<>>))>>), EListOf(<<Spread(EList(<<>>))>>)>>,
  call     |-> <<ECall(EVar(<<109, 107>>), <<>>), ECall(EVar(<<109, 107>>), <<>>)>>,
  collect  |-> <<ECall(EVar(<<99, 111>>), <<>>), ECall(EVar(<<99, 111>>), <<>>)>>,
  objlit   |-> <<EObj(<<>>), EObj(<<>>)>>,
  objspread |-> <<EObj(<<PSpread(EObj(<<>>))>>), EObj(<<PSpread(EObj(<<>>))>>)>>,
  strslice |-> <<EList(<<ERIndex(EStr(<<97>>), EInt(1), ENone)>>), EList(<<ERIndex(EStr(<<97>>), EInt(1), ENone)>>)>>
]
FreshProg(kx) ==
    <<SDecl(EPatRest(<<EVar(<<117, 49>>), EVar(<<114, 49>>)>>), EList(<<EInt(1)>>)),
      SDecl(EPatRest(<<EVar(<<117, 50>>), EVar(<<114, 50>>)>>), EList(<<EInt(2)>>)),
      SDecl(EObj(<<Short(EVar(<<118, 49>>)), PCollect(EVar(<<113, 49>>))>>), EObj(<<Pair(EStr(<<118, 49>>), EInt(1))>>)),
      SDecl(EObj(<<Short(EVar(<<118, 50>>)), PCollect(EVar(<<113, 50>>))>>), EObj(<<Pair(EStr(<<118, 50>>), EInt(1))>>)),
      SFn(<<109, 107>>, <<>>, FALSE, <<SReturn(EList(<<>>))>>),
      SFn(<<99, 111>>, <<EVar(<<122>>)>>, TRUE, <<SReturn(EVar(<<122>>))>>),
      SDecl(EVar(A), Fresh2[kx][1]), SDecl(EVar(Bv), Fresh2[kx][2]),
      SPrint(EBin("===", EVar(A), EVar(Bv))), SPrint(EBin("!==", EVar(A), EVar(Bv))), SPrint(EBin("==", EVar(A), EVar(Bv))),
      SPrint(EBin("===", EVar(A), EVar(A)))>>
C10Params ==
    { <<"eq", i, j>> : i \in 1 .. NEntries, j \in 1 .. NEntries }
    \cup { <<"ref", i, j>> : i \in ContainerEntries \cup {29, 32}, j \in ContainerEntries \cup {29, 30, 32, 4} }
    \cup { <<"alias", i, 0>> : i \in 1 .. NEntries }
    \cup { <<"lit", i, l * 10 + f>> : i \in 1 .. NEntries, l \in 1 .. Len(LitOperands), f \in 1 .. 4 }
    \cup { <<"cross", <<tl, tr>>, IF asobj THEN 1 ELSE 0>> : tl \in Triples(CrossL), tr \in Triples(CrossR), asobj \in BOOLEAN }
    \cup { <<"fresh", kx, 0>> : kx \in DOMAIN Fresh2 }
    \cup { <<"nested", i, j>> : i \in {8, 9, 16, 18, 20, 29, 35, 27}, j \in {8, 9, 10, 15, 18, 20, 7, 34, 27} }

C10ProgOf(p) ==
    CASE p[1] = "eq" ->
            Prelude \o Build(p[2], A) \o Build(p[3], Bv)
            \o <<SPrint(EBin("==", EVar(A), EVar(Bv))), SPrint(EBin("!=", EVar(A), EVar(Bv))),
                 SPrint(EBin("==", EVar(Bv), EVar(A))), SPrint(EVar(A)), SPrint(EVar(Bv))>>
      [] p[1] = "ref" ->
            Prelude \o Build(p[2], A) \o Build(p[3], Bv)
            \o <<SPrint(EBin("===", EVar(A), EVar(Bv))), SPrint(EBin("!==", EVar(A), EVar(Bv))),
                 SPrint(EBin("===", EVar(Bv), EVar(A))), SPrint(EBin("===", EVar(A), EVar(A)))>>
      [] p[1] = "lit" ->
            LET lit == LitOperands[p[3] \div 10]
                f == p[3] - 10 * (p[3] \div 10) IN
            Prelude \o Build(p[2], A)
            \o <<SPrint(CASE f = 1 -> EBin("==", EVar(A), lit) [] f = 2 -> EBin("==", lit, EVar(A))
                          [] f = 3 -> EBin("!=", EVar(A), lit) [] f = 4 -> EBin("!=", lit, EVar(A))),
                 SPrint(EVar(A))>>
      [] p[1] = "fresh" -> FreshProg(p[2])
      [] p[1] = "cross" -> CrossProg(p[2][1], p[2][2], p[3] = 1)
      [] p[1] = "alias" ->
            Prelude \o Build(p[2], A) \o <<SDecl(EVar(Bv), EVar(A))>>
            \o <<SPrint(EBin("==", EVar(A), EVar(Bv))), SPrint(EBin("===", EVar(A), EVar(Bv))),
                 SPrint(EBin("!=", EVar(A), EVar(Bv))), SPrint(EBin("!=", EVar(A), EVar(A))),
                 SPrint(EBin("!=", EList(<<EVar(A)>>), EList(<<EVar(Bv)>>))),
                 SPrint(EBin("!==", EVar(A), EVar(Bv))), SPrint(EBin("==", EVar(A), EVar(A)))>>
      \* operands that share sub-structure: [a] == a, [a, b] == [b, a], {k: a} == a
      [] p[1] = "nested" ->
            Prelude \o Build(p[2], A) \o Build(p[3], Bv)
            \o <<SPrint(EBin("==", EList(<<EVar(A)>>), EVar(A))),
                 SPrint(EBin("==", EList(<<EVar(A), EVar(Bv)>>), EList(<<EVar(Bv), EVar(A)>>))),
                 SPrint(EBin("==", EList(<<EVar(A), EVar(A)>>), EList(<<EVar(A), EVar(Bv)>>))),
                 SPrint(EBin("==", EList(<<EVar(A), EVar(A)>>), EList(<<EVar(Bv), EVar(Bv)>>))),
                 SPrint(EBin("==", EList(<<EVar(Bv), EVar(A), EVar(A)>>), EList(<<EVar(A), EVar(A), EVar(Bv)>>))),
                 SPrint(EBin("==", EObj(<<Pair(EStr(KA), EVar(A)), Pair(EStr(KB), EVar(A))>>),
                                   EObj(<<Pair(EStr(KA), EVar(A)), Pair(EStr(KB), EVar(Bv))>>))),
                 SPrint(EVar(Bv))>>

Finished == status.k # "running"
\* both orders agree, != negates, printing the operands afterwards succeeds
PairLaws ==
    (Finished /\ pi[1] = "eq" /\ Len(out) >= 1) =>
        /\ out[1] \in {T_true, T_false}
        /\ Len(out) >= 3
        /\ out[2] = (IF out[1] = T_true THEN T_false ELSE T_true)
        /\ out[3] = out[1]
RefPairLaws ==
    (Finished /\ pi[1] = "ref" /\ status.k = "done") =>
        /\ out[2] = (IF out[1] = T_true THEN T_false ELSE T_true)
        /\ out[3] = out[1] /\ out[4] = T_true
AliasLaws ==
    (Finished /\ pi[1] = "alias" /\ status.k = "done") =>
        /\ out[1] = T_true
        /\ out[2] = T_true /\ out[3] = T_false /\ out[4] = T_false /\ out[5] = T_false /\ out[6] = T_false
\* comparing leaves every value unchanged (CompareFrame)
CompareFrameStep == (c.m = "V" /\ HasTop("binr") /\ Top.e.op \in EqOps \cup RefOps) => heap' = heap /\ scopes' = scopes
CompareFrame == [][CompareFrameStep]_mcvars
\* the answer is the answer for the contents, whatever is shared
CrossLaws ==
    (Finished /\ pi[1] = "cross") =>
        LET eq == CrossEqual(pi[2][1], pi[2][2])
            t == IF eq THEN T_true ELSE T_false
            f == IF eq THEN T_false ELSE T_true IN
        status.k = "done" /\ out = <<t, t, f, t>>
FreshLaws == (Finished /\ pi[1] = "fresh") => (status.k = "done" /\ out = <<T_false, T_true, T_true, T_true>>)
C10Laws == PairLaws /\ RefPairLaws /\ AliasLaws /\ CrossLaws /\ FreshLaws
=============================================================================
