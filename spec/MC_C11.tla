------------------------------- MODULE MC_C11 -------------------------------
(***************************************************************************)
(* C11 -- list/string indexing, slicing and concatenation obey the         *)
(* sequence laws.  Every list of length 0..MaxLen (distinct elements) and  *)
(* every string over {a, e-acute (2 bytes), euro (3 bytes)} up to MaxChars *)
(* characters, every index and bound in [-2, len+2] and omitted, and every *)
(* non-integer kind in index / bound position.                             *)
(***************************************************************************)
EXTENDS SeedMC

CONSTANTS MaxLen, MaxChars

Xs == <<120, 115>>
Ys == <<121, 115>>
Kv == <<107, 118>>   \* kv
ListOf(n) == EList([i \in 1 .. n |-> EInt(10 + i)])

Chars == <<(<<97>>), (<<195, 169>>), (<<226, 130, 172>>)>>
RECURSIVE StrsOfLen(_)
StrsOfLen(n) == IF n = 0 THEN {<<>>} ELSE {Chars[i] \o s : i \in 1 .. 3, s \in StrsOfLen(n - 1)}
StrPool == SetToSeq(UNION {StrsOfLen(n) : n \in 0 .. MaxChars})

\* a sequence value: kind "list" with id = length, or kind "str" with id = index into StrPool
SeqE(kind, id) == IF kind = "list" THEN ListOf(id) ELSE EStr(StrPool[id])
SeqLen(kind, id) == IF kind = "list" THEN id ELSE Len(StrPool[id])
SeqIds == {<<"list", n>> : n \in 0 .. MaxLen} \cup {<<"str", i>> : i \in 1 .. Len(StrPool)}

OM == 99                  \* "omitted bound"
NonInt(i) == CASE i = 100 -> ENull [] i = 101 -> EBool(TRUE) [] i = 102 -> EStr(<<49>>)
               [] i = 103 -> EList(<<EInt(0)>>)
Bnd(x) == IF x = OM THEN ENone ELSE IF x >= 100 THEN NonInt(x) ELSE EInt(x)
Ixs(n) == (-2 .. n + 2) \cup {100, 101, 102, 103}
Bnds(n) == (-2 .. n + 2) \cup {OM, 100, 102}

\* parameter tuples <<family, kind, id, a, b, c>>
C11Params ==
    UNION { { <<"idx", s[1], s[2], i, 0, 0>> : i \in Ixs(SeqLen(s[1], s[2])) }
            \cup { <<"rng", s[1], s[2], a, b, 0>> : a \in Bnds(SeqLen(s[1], s[2])), b \in Bnds(SeqLen(s[1], s[2])) }
            \cup { <<"rnglaw", s[1], s[2], a, b, 0>> :
                     a \in (0 .. SeqLen(s[1], s[2])) \cup {OM}, b \in (0 .. SeqLen(s[1], s[2])) \cup {OM} }
            \cup { <<"split", s[1], s[2], kx, 0, 0>> : kx \in 0 .. SeqLen(s[1], s[2]) }
          : s \in SeqIds }
    \cup UNION { { <<"cat", s[1], s[2], t[2], 0, 0>> : t \in {u \in SeqIds : u[1] = s[1]} } : s \in SeqIds }
    \cup UNION { { <<"iasg", "list", n, i, 0, 0>> : i \in Ixs(n) }
                 \cup { <<"rasg", "list", n, a, b, m>> : a \in Bnds(n), b \in Bnds(n), m \in 0 .. n + 1 }
                 \* the right-hand side is the target list itself (m = 0) or an alias of it (m = 1)
                 \cup { <<"rasga", "list", n, a, b, m>> : a \in Bnds(n), b \in Bnds(n), m \in 0 .. 1 }
                 \cup { <<"rasgs", "list", n, a, b, m>> : a \in {0, 1, OM}, b \in {n - 1, n, OM},
                                                          m \in 1 .. Len(StrPool) }
               : n \in 0 .. MaxLen }
    \cup { <<"rasgk", "list", n, 0, n, kx>> : n \in 1 .. 2, kx \in {100, 101, 104, 105} }
    \* xs + ys is a new list whatever the lengths (also when one side is empty): writes through it leave xs, ys alone
    \cup { <<"catfresh", "list", n, m, 0, 0>> : n \in 0 .. MaxLen, m \in 0 .. 2 }
    \* pieces cut inside multi-byte characters: s[a:b] + s[c:d] is the bytes of the first, then of the second
    \cup UNION { { <<"bytecat", "str", i, a, b, cx>> : a \in 0 .. Len(StrPool[i]), b \in 0 .. Len(StrPool[i]), cx \in 0 .. Len(StrPool[i]) }
                 : i \in {j \in 1 .. Len(StrPool) : Len(StrPool[j]) \in 2 .. 5} }

RhsKind(kx) == CASE kx = 100 -> ENull [] kx = 101 -> EBool(TRUE) [] kx = 104 -> EInt(5)
                 [] kx = 105 -> EObj(<<>>)

C11ProgOf(p) ==
    LET s == SeqE(p[2], p[3])
        n == SeqLen(p[2], p[3]) IN
    \* the marker 0 is printed iff the read itself is defined (printing a partial
    \* multi-byte character afterwards may fail: that is `print`, not the read)
    CASE p[1] = "idx" -> <<SDecl(EVar(Xs), s), SDecl(EVar(Ys), EIndex(EVar(Xs), Bnd(p[4]))),
                           SPrint(EInt(0)), SPrint(EVar(Ys))>>
      [] p[1] = "rng" -> <<SDecl(EVar(Xs), s), SDecl(EVar(Ys), ERIndex(EVar(Xs), Bnd(p[4]), Bnd(p[5]))),
                           SPrint(EInt(0)), SPrint(EVar(Ys))>>
      \* s[a:b][k] == s[a+k] for every k, by iterating the slice
      [] p[1] = "rnglaw" ->
            LET a == IF p[4] = OM THEN 0 ELSE p[4] IN
            <<SDecl(EVar(Xs), s),
              SFor(EVar(Kv), ERIndex(EVar(Xs), Bnd(p[4]), Bnd(p[5])),
                   <<SPrint(EBin("==", EIndex(EVar(Kv), EInt(1)),
                                 EIndex(EVar(Xs), EBin("+", EInt(a), EIndex(EVar(Kv), EInt(0))))))>>),
              SPrint(EInt(0))>>
      \* s[:k] + s[k:] == s
      [] p[1] = "split" ->
            <<SDecl(EVar(Xs), s),
              SPrint(EBin("==", EBin("+", ERIndex(EVar(Xs), ENone, EInt(p[4])),
                                     ERIndex(EVar(Xs), EInt(p[4]), ENone)), EVar(Xs)))>>
      \* (s+t) has the elements of s then t; (s+t)[len(s)+i] == t[i]
      [] p[1] = "cat" ->
            LET t == SeqE(p[2], p[4]) IN
            <<SDecl(EVar(Xs), s), SDecl(EVar(Ys), t), SPrint(EBin("+", EVar(Xs), EVar(Ys))),
              SFor(EVar(Kv), EVar(Ys),
                   <<SPrint(EBin("==", EIndex(EBin("+", EVar(Xs), EVar(Ys)),
                                              EBin("+", EInt(n), EIndex(EVar(Kv), EInt(0)))),
                                 EIndex(EVar(Kv), EInt(1))))>>)>>
      [] p[1] = "catfresh" ->
            <<SDecl(EVar(Xs), s), SDecl(EVar(Ys), ListOf(p[4])),
              SDecl(EVar(Kv), EBin("+", EVar(Xs), EVar(Ys))),
              SPrint(EBin("===", EVar(Kv), EVar(Xs))), SPrint(EBin("===", EVar(Kv), EVar(Ys))),
              SDecl(EVar(<<122>>), EBin("+", EVar(Ys), EVar(Xs))), SPrint(EBin("===", EVar(<<122>>), EVar(Xs))),
              SOpAssign(EVar(Kv), "+", EList(<<EInt(50)>>)), SAssign(EIndex(EVar(Kv), EInt(0)), EInt(51)),
              SAssign(ERIndex(EVar(<<122>>), EInt(0), EInt(1)), EStr(<<113>>)),
              SPrint(EVar(Xs)), SPrint(EVar(Ys)), SPrint(EVar(Kv)), SPrint(EVar(<<122>>))>>
      \* t := s[lo:hi], u := s[c:] ; (t + u) has len(t) + len(u) bytes, the k-th is t[k] or u[k - len(t)]
      [] p[1] = "bytecat" ->
            LET lo == IF p[4] <= p[5] THEN p[4] ELSE p[5]
                hi == IF p[4] <= p[5] THEN p[5] ELSE p[4] IN
            <<SDecl(EVar(Xs), s),
              SDecl(EVar(Ys), ERIndex(EVar(Xs), EInt(lo), EInt(hi))), SDecl(EVar(<<122>>), ERIndex(EVar(Xs), EInt(p[6]), ENone)),
              SDecl(EVar(<<119>>), EBin("+", EVar(Ys), EVar(<<122>>))),
              \* (->len wants valid UTF-8: the bytes are counted by iterating)
              SDecl(EVar(<<110>>), EInt(0)), SFor(EVar(N_us), EVar(<<119>>), <<SOpAssign(EVar(<<110>>), "+", EInt(1))>>),
              SPrint(EBin("==", EVar(<<110>>), EInt((hi - lo) + (n - p[6])))),
              SFor(EVar(Kv), EVar(Ys), <<SPrint(EBin("==", EIndex(EVar(<<119>>), EIndex(EVar(Kv), EInt(0))), EIndex(EVar(Kv), EInt(1))))>>),
              SFor(EVar(Kv), EVar(<<122>>),
                   <<SPrint(EBin("==", EIndex(EVar(<<119>>), EBin("+", EInt(hi - lo), EIndex(EVar(Kv), EInt(0)))), EIndex(EVar(Kv), EInt(1))))>>),
              SDecl(EVar(<<118>>), EBin("+", EStr(<<120>>), EVar(Ys))), SOpAssign(EVar(<<118>>), "+", EVar(<<122>>)),
              SPrint(EBin("==", ERIndex(EVar(<<118>>), EInt(1), ENone), EVar(<<119>>)))>>
      [] p[1] = "iasg" -> <<SDecl(EVar(Xs), s), SAssign(EIndex(EVar(Xs), Bnd(p[4])), EInt(99)),
                            SPrint(EVar(Xs))>>
      [] p[1] = "rasg" -> <<SDecl(EVar(Xs), s),
                            SAssign(ERIndex(EVar(Xs), Bnd(p[4]), Bnd(p[5])),
                                    EList([i \in 1 .. p[6] |-> EInt(70 + i)])),
                            SPrint(EVar(Xs))>>
      [] p[1] = "rasga" -> <<SDecl(EVar(Xs), s), SDecl(EVar(Ys), EVar(Xs)),
                             SAssign(ERIndex(EVar(Xs), Bnd(p[4]), Bnd(p[5])), IF p[6] = 0 THEN EVar(Xs) ELSE EVar(Ys)),
                             SPrint(EVar(Xs))>>
      [] p[1] = "rasgs" -> <<SDecl(EVar(Xs), s),
                             SAssign(ERIndex(EVar(Xs), Bnd(p[4]), Bnd(p[5])), EStr(StrPool[p[6]])),
                             SPrint(EVar(Xs))>>
      [] p[1] = "rasgk" -> <<SDecl(EVar(Xs), s),
                             SAssign(ERIndex(EVar(Xs), Bnd(p[4]), Bnd(p[5])), RhsKind(p[6])),
                             SPrint(EVar(Xs))>>

-----------------------------------------------------------------------------
(* The laws, stated on the specification's own behaviour. *)
IsIntBound(x) == x < 99
Lo(x) == IF x = OM THEN 0 ELSE x
Hi(x, n) == IF x = OM THEN n ELSE x
Fam == pi[1]
SLen == SeqLen(pi[2], pi[3])
Finished == status.k # "running"

\* s[i] is defined exactly for 0 <= i < len
IndexDomain ==
    (Finished /\ Fam = "idx") => ((Len(out) >= 1) <=> (IsIntBound(pi[4]) /\ 0 <= pi[4] /\ pi[4] < SLen))
\* s[a:b] is defined exactly for 0 <= a <= b <= len (omitted = 0 / len)
RangeDomain ==
    (Finished /\ Fam = "rng") =>
        ((Len(out) >= 1) <=>
            /\ pi[4] \in (0 .. SLen) \cup {OM} /\ pi[5] \in (0 .. SLen) \cup {OM}
            /\ Lo(pi[4]) <= Hi(pi[5], SLen))
\* ... has length b-a and k-th element s[a+k]
RangeLaw ==
    (Finished /\ Fam = "rnglaw") =>
        IF Lo(pi[4]) <= Hi(pi[5], SLen)
        THEN status.k = "done" /\ Len(out) = Hi(pi[5], SLen) - Lo(pi[4]) + 1
             /\ \A i \in 1 .. Len(out) - 1 : out[i] = T_true
        ELSE status.k = "failed"
SplitJoin == (Finished /\ Fam = "split") => (status.k = "done" /\ out = <<T_true>>)
ConcatLaw ==
    (Finished /\ Fam = "cat") =>
        (status.k = "done" /\ Len(out) = 1 + SeqLen(pi[2], pi[4]) /\ \A i \in 2 .. Len(out) : out[i] = T_true)
\* xs[i] = v is defined exactly for 0 <= i < len
IndexAssignDomain ==
    (Finished /\ Fam = "iasg") => ((status.k = "done") <=> (IsIntBound(pi[4]) /\ 0 <= pi[4] /\ pi[4] < SLen))
\* xs[a:b] = ys is defined exactly for 0 <= a < b <= len and len(ys) = b-a
RangeAssignDomain ==
    (Finished /\ Fam = "rasg") =>
        ((status.k = "done") <=>
            /\ pi[4] \in (0 .. SLen) \cup {OM} /\ pi[5] \in (0 .. SLen) \cup {OM}
            /\ Lo(pi[4]) < Hi(pi[5], SLen) /\ pi[6] = Hi(pi[5], SLen) - Lo(pi[4]))
RangeAssignAliasDomain ==
    (Finished /\ Fam = "rasga") =>
        ((status.k = "done") <=>
            /\ pi[4] \in (0 .. SLen) \cup {OM} /\ pi[5] \in (0 .. SLen) \cup {OM}
            /\ Lo(pi[4]) < Hi(pi[5], SLen) /\ SLen = Hi(pi[5], SLen) - Lo(pi[4]))
CatFresh == (Finished /\ Fam = "catfresh") => (out[1] = T_false /\ out[2] = T_false /\ out[3] = T_false)
ByteCat == (Finished /\ Fam = "bytecat") => (status.k = "done" /\ \A i \in 1 .. Len(out) : out[i] = T_true)
RangeAssignKind == (Finished /\ Fam = "rasgk") => status.k = "failed"
\* any violation of a domain is a *reported* error, with a position
OutOfDomainIsError == (status.k = "failed") => Located(status.diag)

C11Laws == /\ IndexDomain /\ RangeDomain /\ RangeLaw /\ SplitJoin /\ ConcatLaw
           /\ IndexAssignDomain /\ RangeAssignDomain /\ RangeAssignAliasDomain /\ CatFresh /\ ByteCat /\ RangeAssignKind /\ OutOfDomainIsError
=============================================================================
