------------------------------- MODULE MC_C12 -------------------------------
(***************************************************************************)
(* C12 -- objects are string-keyed maps with deterministic key order.      *)
(* Histories of insert / overwrite / op-assign / read through `.k` and     *)
(* `["k"]`, literal forms (pair, computed name, shorthand, spread,         *)
(* duplicate keys), all insertion orders of a key set, observed by print,  *)
(* `for` and `==`.                                                         *)
(***************************************************************************)
EXTENDS SeedMC

CONSTANTS HistLen

O == <<111>>
Q == <<113>>
Kv == <<107, 118>>
Md(x, m) == x - m * (x \div m)
\* keys: a, B, b, _ are identifiers (both access paths); "" and "k k" only by index
Keys == <<(<<97>>), (<<66>>), (<<98>>), (<<95>>), (<<>>), (<<107, 32, 107>>)>>
IdentKeys == 1 .. 4
AllKeys == 1 .. 6

\* operations: <<kind, key>> coded as kind * 10 + key
\*   1 insert by index   2 insert by dot   3 op-assign by index   4 op-assign by dot
\*   5 read by index     6 read by dot
\*   7 insert by an interpolated-string index   8 op-assign by a computed (concatenated) index
\*   9 read by an interpolated-string index
OpCodes == {10 + kx : kx \in AllKeys} \cup {20 + kx : kx \in IdentKeys}
           \cup {70 + kx : kx \in {1, 6}} \cup {80 + kx : kx \in {1, 3}} \cup {90 + kx : kx \in {1, 6}}
           \cup {30 + kx : kx \in {1, 2, 5}} \cup {40 + kx : kx \in {1, 2}}
           \cup {100 + kx : kx \in {1, 6}} \cup {110 + kx : kx \in {1, 3}}
           \cup {50 + kx : kx \in {1, 3, 6}} \cup {60 + kx : kx \in {1, 4}}

OpStmt(code, n, obj) ==
    LET kind == code \div 10
        key == Keys[Md(code, 10)] IN
    CASE kind = 1 -> SAssign(EIndex(EVar(obj), EStr(key)), EInt(n))
      [] kind = 2 -> SAssign(EProp(EVar(obj), key), EInt(n))
      [] kind = 3 -> SOpAssign(EIndex(EVar(obj), EStr(key)), "+", EInt(n))
      [] kind = 4 -> SOpAssign(EProp(EVar(obj), key), "+", EInt(n))
      [] kind = 5 -> SPrint(EIndex(EVar(obj), EStr(key)))
      [] kind = 6 -> SPrint(EProp(EVar(obj), key))
      [] kind = 7 -> SAssign(EIndex(EVar(obj), EIStr(<<Lit(<<>>), SlotP(0, EStr(key)), Lit(<<>>)>>)), EInt(n))
      [] kind = 8 -> SOpAssign(EIndex(EVar(obj), EBin("+", EStr(<<>>), EStr(key))), "+", EInt(n))
      [] kind = 9 -> SPrint(EIndex(EVar(obj), EIStr(<<Lit(key), SlotP(0, EStr(<<>>)), Lit(<<>>)>>)))
      \* op-assignment with an operator that is not commutative: o[k] = o[k] - n
      [] kind = 10 -> SOpAssign(EIndex(EVar(obj), EStr(key)), "-", EInt(n + 3))
      [] kind = 11 -> SOpAssign(EProp(EVar(obj), key), "-", EInt(n + 3))

\* the same operation through the other access path (identifier keys only)
OtherPath(code) ==
    LET kind == code \div 10 IN
    IF Md(code, 10) \in IdentKeys
    THEN (CASE kind = 1 -> 20 [] kind = 2 -> 10 [] kind = 3 -> 40 [] kind = 4 -> 30
            [] kind = 5 -> 60 [] kind = 6 -> 50 [] kind = 7 -> 20 [] kind = 8 -> 40 [] kind = 9 -> 60
            [] kind = 10 -> 110 [] kind = 11 -> 100) + Md(code, 10)
    ELSE code

Observe(obj) == <<SPrint(EVar(obj)), SFor(EVar(Kv), EVar(obj), <<SPrint(EVar(Kv))>>)>>

RECURSIVE Hists(_)
Hists(n) == IF n = 0 THEN {<<>>} ELSE {<<cx>> \o h : cx \in OpCodes, h \in Hists(n - 1)}

Perms3 == {<<1, 2, 3>>, <<1, 3, 2>>, <<2, 1, 3>>, <<2, 3, 1>>, <<3, 1, 2>>, <<3, 2, 1>>}
PermKeys == <<1, 3, 6>>       \* a, b, "k k"

\* literal forms
Xv == <<120>>
Nm == <<110, 109>>
Lits == [
  dup      |-> EObj(<<Pair(EStr(<<97>>), EInt(1)), Pair(EStr(<<97>>), EInt(2))>>),
  computed |-> EObj(<<Pair(EVar(Nm), EInt(1)), Pair(EBin("+", EVar(Nm), EStr(<<50>>)), EInt(2))>>),
  short    |-> EObj(<<Short(EVar(Xv)), Pair(EStr(<<120>>), EInt(7))>>),
  short2   |-> EObj(<<Pair(EStr(<<120>>), EInt(7)), Short(EVar(Xv))>>),
  spread1  |-> EObj(<<PSpread(EVar(Q)), Pair(EStr(<<99>>), EInt(4))>>),
  spread2  |-> EObj(<<Pair(EStr(<<99>>), EInt(4)), PSpread(EVar(Q))>>),
  spread3  |-> EObj(<<PSpread(EVar(Q)), PSpread(EObj(<<Pair(EStr(<<97>>), EInt(0))>>))>>),
  order    |-> EObj(<<Pair(EStr(<<122>>), ECall(EVar(N_print), <<EInt(1)>>)),
                      Pair(EStr(<<97>>), ECall(EVar(N_print), <<EInt(2)>>))>>),
  nonstr   |-> EObj(<<Pair(EInt(1), EInt(2))>>),
  nonvar   |-> EObj(<<Short(EInt(1))>>),
  undefsh  |-> EObj(<<Short(EVar(<<117>>))>>),
  spreadl  |-> EObj(<<PSpread(EList(<<>>))>>),
  empty    |-> EObj(<<>>),
  spreadtwice |-> EObj(<<PSpread(EVar(Q)), Pair(EStr(<<97>>), EInt(9)), PSpread(EVar(Q))>>),
  spreadtwice2 |-> EObj(<<PSpread(EVar(Q)), PSpread(EObj(<<Pair(EStr(<<99>>), EInt(8))>>)), PSpread(EVar(Q))>>),
  spreadself |-> EObj(<<Pair(EStr(<<97>>), EInt(9)), PSpread(EVar(Q)), Pair(EStr(<<97>>), EInt(7)), Short(EVar(Xv))>>),
  shorttwice |-> EObj(<<Short(EVar(Xv)), Pair(EStr(<<120>>), EInt(1)), Short(EVar(Xv))>>),
  compdup  |-> EObj(<<Pair(EVar(Nm), EInt(1)), Pair(EStr(<<107>>), EInt(2)), Pair(EBin("+", EStr(<<>>), EVar(Nm)), EInt(3))>>),
  nonstreffect |-> EObj(<<Pair(EStr(<<97>>), ECall(EVar(N_print), <<EInt(1)>>)),
                          Pair(EInt(1), ECall(EVar(N_print), <<EInt(2)>>)), Pair(EStr(<<98>>), ECall(EVar(N_print), <<EInt(3)>>))>>),
  nonstrfail   |-> EObj(<<Pair(ENull, EProp(EVar(Q), <<122, 122>>))>>),
  prefixkeys   |-> EObj(<<Pair(EStr(<<97>>), EInt(1)), Pair(EStr(<<97, 32, 98>>), EInt(2)), Pair(EStr(<<97, 33>>), EInt(3)),
                          Pair(EStr(<<>>), EInt(4)), Pair(EStr(<<32>>), EInt(5)), Pair(EStr(<<33>>), EInt(6)), Pair(EStr(<<97, 97>>), EInt(7)),
                          Pair(EStr(<<10>>), EInt(8)), Pair(EStr(<<97, 10>>), EInt(9)),
                          Pair(EStr(<<110>>), EObj(<<Pair(EStr(<<107>>), EInt(1)), Pair(EStr(<<107, 32>>), EInt(2)), Pair(EStr(<<>>), EInt(3))>>))>>),
  nestedspread |-> EObj(<<Pair(EStr(<<111>>), EObj(<<PSpread(EVar(Q))>>)), PSpread(EVar(Q))>>)
]

\* op-assignment to one property whose value is also reachable elsewhere: every other
\* property (and the other holder) keeps its value
Sh == <<115, 104>>
\* objects with pairwise equal values under different keys are unequal (also nested)
EqKeys == [
  k1 |-> <<EObj(<<Pair(EStr(<<120>>), EInt(1)), Pair(EStr(<<121>>), EInt(2))>>), EObj(<<Pair(EStr(<<120>>), EInt(1)), Pair(EStr(<<122>>), EInt(2))>>)>>,
  k2 |-> <<EObj(<<Pair(EStr(<<107>>), EInt(0))>>), EObj(<<Pair(EStr(<<75>>), EInt(0))>>)>>,
  k3 |-> <<EObj(<<Pair(EStr(<<>>), EInt(0))>>), EObj(<<Pair(EStr(<<32>>), EInt(0))>>)>>,
  k4 |-> <<EList(<<EObj(<<Pair(EStr(<<97>>), EInt(1))>>)>>), EList(<<EObj(<<Pair(EStr(<<98>>), EInt(1))>>)>>)>>,
  k5 |-> <<EObj(<<Pair(EStr(<<97>>), EInt(1)), Pair(EStr(<<98>>), EInt(2))>>), EObj(<<Pair(EStr(<<98>>), EInt(2)), Pair(EStr(<<97>>), EInt(1))>>)>>,
  k6 |-> <<EObj(<<Pair(EStr(<<97>>), EInt(1)), Pair(EStr(<<98>>), EInt(2))>>), EObj(<<Pair(EStr(<<97>>), EInt(2)), Pair(EStr(<<98>>), EInt(1))>>)>>
]
OpAliasForms == {"dot", "idx", "istr", "dotint", "nested"}
OpAliasStmt(f) ==
    CASE f = "dot"    -> SOpAssign(EProp(EVar(O), <<97>>), "+", EList(<<EInt(2)>>))
      [] f = "idx"    -> SOpAssign(EIndex(EVar(O), EStr(<<97>>)), "+", EList(<<EInt(3)>>))
      [] f = "istr"   -> SOpAssign(EIndex(EVar(O), EIStr(<<Lit(<<>>), SlotP(0, EStr(<<97>>)), Lit(<<>>)>>)), "+", EVar(Sh))
      [] f = "dotint" -> SOpAssign(EProp(EVar(O), <<98>>), "+", EInt(5))
      [] f = "nested" -> SOpAssign(EIndex(EProp(EVar(O), <<97>>), EInt(0)), "+", EInt(6))
\* parameter tuples <<family, history-or-(perm1,perm2), name>>
C12Params ==
    { <<"hist", h, "-">> : h \in UNION {Hists(n) : n \in 1 .. HistLen} }
    \cup { <<"paths", h, "-">> : h \in UNION {Hists(n) : n \in 1 .. HistLen} }
    \cup { <<"order", p1 \o p2, "-">> : p1 \in Perms3, p2 \in Perms3 }
    \cup { <<"lit", <<>>, l>> : l \in DOMAIN Lits }
    \cup { <<"opalias", <<>>, f>> : f \in OpAliasForms }
    \cup { <<"eqkeys", <<>>, kx>> : kx \in DOMAIN EqKeys }
    \cup { <<"proptargets", <<>>, f>> : f \in {"dotdot", "dotidx", "vardot", "nested", "objpat"} }

C12ProgOf(p) ==
    CASE p[1] = "hist" ->
            <<SDecl(EVar(O), EObj(<<Pair(EStr(<<97>>), EInt(1))>>))>>
            \o [i \in 1 .. Len(p[2]) |-> OpStmt(p[2][i], 10 * i, O)]
            \o Observe(O)
      \* the same history through the two access paths on two objects, then o == q
      [] p[1] = "paths" ->
            <<SDecl(EVar(O), EObj(<<Pair(EStr(<<97>>), EInt(1))>>)),
              SDecl(EVar(Q), EObj(<<Pair(EStr(<<97>>), EInt(1))>>))>>
            \o [i \in 1 .. 2 * Len(p[2]) |->
                  IF Md(i, 2) = 1 THEN OpStmt(p[2][(i + 1) \div 2], 10 * ((i + 1) \div 2), O)
                  ELSE OpStmt(OtherPath(p[2][i \div 2]), 10 * (i \div 2), Q)]
            \o <<SPrint(EBin("==", EVar(O), EVar(Q)))>>
      \* the same pairs inserted in two orders: indistinguishable
      [] p[1] = "order" ->
            <<SDecl(EVar(O), EObj(<<>>)), SDecl(EVar(Q), EObj(<<>>))>>
            \o [i \in 1 .. 3 |-> SAssign(EIndex(EVar(O), EStr(Keys[PermKeys[p[2][i]]])), EInt(p[2][i]))]
            \o [i \in 1 .. 3 |-> SAssign(EIndex(EVar(Q), EStr(Keys[PermKeys[p[2][3 + i]]])), EInt(p[2][3 + i]))]
            \o <<SPrint(EBin("==", EVar(O), EVar(Q)))>> \o Observe(O) \o Observe(Q)
      \* `o.k` and `o["k"]` are the same target also inside a pattern; two objects may be given the same key
      [] p[1] = "proptargets" ->
            <<SDecl(EVar(O), EObj(<<Pair(EStr(<<97>>), EInt(0))>>)), SDecl(EVar(Q), EObj(<<>>)), SDecl(EVar(<<97>>), EInt(0)),
              (CASE p[3] = "dotdot" -> SAssign(EPat(<<EProp(EVar(O), <<97>>), EProp(EVar(Q), <<97>>)>>), EList(<<EInt(5), EInt(6)>>))
                 [] p[3] = "dotidx" -> SAssign(EPat(<<EProp(EVar(O), <<97>>), EIndex(EVar(Q), EStr(<<97>>))>>), EList(<<EInt(5), EInt(6)>>))
                 [] p[3] = "vardot" -> SAssign(EPat(<<EVar(<<97>>), EProp(EVar(O), <<97>>)>>), EList(<<EInt(7), EInt(8)>>))
                 [] p[3] = "nested" -> SAssign(EPat(<<EProp(EVar(O), <<97>>), EPat(<<EProp(EVar(Q), <<97>>), EVar(<<97>>)>>)>>),
                                               EList(<<EInt(1), EList(<<EInt(2), EInt(3)>>)>>))
                 [] p[3] = "objpat" -> SAssign(EObj(<<Pair(EStr(<<120>>), EProp(EVar(O), <<97>>)), Pair(EStr(<<121>>), EProp(EVar(Q), <<97>>))>>),
                                               EObj(<<Pair(EStr(<<120>>), EInt(1)), Pair(EStr(<<121>>), EInt(2))>>))),
              SPrint(EVar(O)), SPrint(EVar(Q)), SPrint(EVar(<<97>>))>>
      [] p[1] = "eqkeys" ->
            <<SDecl(EVar(O), EqKeys[p[3]][1]), SDecl(EVar(Q), EqKeys[p[3]][2]),
              SPrint(EBin("==", EVar(O), EVar(Q))), SPrint(EBin("!=", EVar(O), EVar(Q))), SPrint(EBin("==", EVar(Q), EVar(O)))>>
      [] p[1] = "opalias" ->
            <<SDecl(EVar(Sh), EList(<<EInt(1)>>)),
              SDecl(EVar(O), EObj(<<Pair(EStr(<<97>>), EVar(Sh)), Pair(EStr(<<66>>), EVar(Sh)), Pair(EStr(<<98>>), EInt(4)),
                                    Pair(EStr(<<>>), EList(<<EInt(1)>>))>>)),
              SDecl(EVar(Q), EObj(<<PSpread(EVar(O))>>)),
              OpAliasStmt(p[3]), SPrint(EVar(O)), SPrint(EVar(Sh)), SPrint(EVar(Q)),
              SPrint(EBin("===", EProp(EVar(O), <<66>>), EVar(Sh))), SPrint(EBin("===", EProp(EVar(O), <<97>>), EVar(Sh))),
              OpAliasStmt(p[3]), SPrint(EVar(O)), SPrint(EVar(Sh)), SPrint(EVar(Q))>>
      [] p[1] = "lit" ->
            <<SDecl(EVar(Xv), EInt(5)), SDecl(EVar(Nm), EStr(<<107>>)),
              SDecl(EVar(Q), EObj(<<Pair(EStr(<<97>>), EInt(1)), Pair(EStr(<<99>>), EInt(3))>>)),
              SDecl(EVar(O), Lits[p[3]])>>
            \o Observe(O)
            \* the literal is a new object: later changes of its sources do not show through it
            \o <<SAssign(EProp(EVar(Q), <<97>>), EInt(77)), SAssign(EIndex(EVar(Q), EStr(<<122>>)), EInt(78)),
                 SAssign(EIndex(EVar(O), EStr(<<110, 101, 119>>)), EInt(79))>>
            \o Observe(O) \o <<SPrint(EVar(Q)), SPrint(EBin("===", EVar(O), EVar(Q)))>>

-----------------------------------------------------------------------------
Finished == status.k # "running"
\* an error-free history through the two access paths leaves equal objects, and
\* the two paths fail on exactly the same operations (DotEqualsIndex)
DotEqualsIndex ==
    (Finished /\ pi[1] = "paths") =>
        IF status.k = "done" THEN out[Len(out)] = T_true
        ELSE status.diag.kind \in {"OpOnUndefinedIndex", "OpOnUndefinedProp", "PropNotFound"}
\* insertion order is unobservable (OrderIrrelevant), iteration ascends (AscendingKeys)
OrderIrrelevant ==
    (Finished /\ pi[1] = "order") =>
        /\ status.k = "done" /\ out[1] = T_true
        /\ SubSeq(out, 2, 5) = SubSeq(out, 6, 9)
\* every object in every state: `for` pairs ascend by key
AscendingKeys ==
    \A i \in 1 .. Len(heap) :
        heap[i].k = "object" =>
            LET ps == ForPairs(VObj(i), heap) IN
            \A j \in 1 .. Len(ps) - 1 : BytesLess(ps[j][1].v.s, ps[j + 1][1].v.s)
EqKeysLaw ==
    (Finished /\ pi[1] = "eqkeys") =>
        LET t == IF pi[3] = "k5" THEN T_true ELSE T_false
            f == IF pi[3] = "k5" THEN T_false ELSE T_true IN
        status.k = "done" /\ out = <<t, f, t>>
C12Laws == DotEqualsIndex /\ OrderIrrelevant /\ AscendingKeys /\ EqKeysLaw
=============================================================================
