------------------------------- MODULE MC_C13 -------------------------------
(***************************************************************************)
(* C13 -- destructuring, spread and collect are inverse, lossless          *)
(* rearrangements.                                                         *)
(*   lp   list patterns (names, `_`, repeated name, nested list / object   *)
(*        pattern, final `..rest`, misplaced spread) x source lists of     *)
(*        length 0..MaxSrc (ints / nested lists / objects) and other kinds *)
(*        x the four binding positions (:=, =, for target, parameter)      *)
(*   op   object patterns (shorthand, rename, `_`, computed key, nested,   *)
(*        `..rest` last / misplaced, spread, non-variable) x source        *)
(*        objects over {a, b, c} and other kinds x positions               *)
(*   law  round-trip laws as programs that must print true                 *)
(*   call every split of an argument list into plain and spread arguments  *)
(*        against parameter lists of arity 0..3 with and without ..rest,   *)
(*        called both spread and written out                               *)
(***************************************************************************)
EXTENDS SeedMC

CONSTANTS MaxPat, MaxSrc

V(i) == EVar(<<96 + i>>)            \* a b c d e ...
Rest == EVar(<<114, 115>>)          \* rs
Src == EVar(<<115, 114, 99>>)       \* src
FN == <<102>>
I(n) == EInt(n)

\* list pattern items
LItems == {"a", "b", "c", "_", "dup", "sub", "osub", "spr"}
LItemE(it) ==
    CASE it = "a" -> Item(V(1)) [] it = "b" -> Item(V(2)) [] it = "c" -> Item(V(3))
      [] it = "_" -> Item(EVar(N_us)) [] it = "dup" -> Item(V(1))
      [] it = "sub" -> Item(EPat(<<V(4), V(5)>>))
      [] it = "osub" -> Item(EObj(<<Short(EVar(<<107>>))>>))
      [] it = "spr" -> Spread(V(2))
LNames(it) ==
    CASE it \in {"a", "dup"} -> <<V(1)>> [] it \in {"b", "spr"} -> <<V(2)>> [] it = "c" -> <<V(3)>>
      [] it = "_" -> <<>> [] it = "sub" -> <<V(4), V(5)>> [] it = "osub" -> <<EVar(<<107>>)>>

RECURSIVE ItemSeqs(_, _)
ItemSeqs(n, S) == IF n = 0 THEN {<<>>} ELSE {<<x>> \o s : x \in S, s \in ItemSeqs(n - 1, S)}

ListPatInto(items, restVar) ==
    [t |-> "list", loc |-> NL, collect |-> TRUE,
     items |-> [i \in 1 .. Len(items) |-> LItemE(items[i])] \o <<Item(restVar)>>]
ListPat(items, collect) ==
    IF collect
    THEN ListPatInto(items, Rest)
    ELSE [t |-> "list", loc |-> NL, collect |-> FALSE,
          items |-> [i \in 1 .. Len(items) |-> LItemE(items[i])]]

\* source values
SrcKinds == {"ints", "nested", "objs", "null", "int", "str", "obj"}
SrcList(kind, n) ==
    CASE kind = "ints"   -> EList([i \in 1 .. n |-> I(10 + i)])
      [] kind = "nested" -> EList([i \in 1 .. n |-> EList(<<I(10 + i), I(20 + i)>>)])
      [] kind = "objs"   -> EList([i \in 1 .. n |-> EObj(<<Pair(EStr(<<107>>), I(30 + i))>>)])
      [] kind = "null"   -> ENull
      [] kind = "int"    -> I(5)
      [] kind = "str"    -> EStr(<<97, 98>>)
      [] kind = "obj"    -> EObj(<<Pair(EStr(<<97>>), I(1))>>)

Positions == {"decl", "assign", "for", "param"}
AllNames == <<V(1), V(2), V(3), V(4), V(5), EVar(<<107>>), Rest>>
PrintAll(names) == [i \in 1 .. Len(names) |-> SPrint(names[i])]
NamesOfL(items, collect) ==
    Concat([i \in 1 .. Len(items) |-> LNames(items[i])]) \o (IF collect THEN <<Rest>> ELSE <<>>)

BindAt(pos, pat, src, names) ==
    CASE pos = "decl"   -> <<SDecl(Src, src), SDecl(pat, Src)>> \o PrintAll(names) \o <<SPrint(Src)>>
      [] pos = "assign" -> [i \in 1 .. Len(AllNames) |-> SDecl(AllNames[i], I(0))]
                           \o <<SDecl(Src, src), SAssign(pat, Src)>> \o PrintAll(names) \o <<SPrint(Src)>>
      [] pos = "for"    -> <<SDecl(Src, src),
                             SFor(EPat(<<EVar(N_us), pat>>), EList(<<Src, Src>>), PrintAll(names))>>
      [] pos = "param"  -> <<SDecl(Src, src), SFn(FN, <<pat>>, FALSE, PrintAll(names)),
                             SExpr(ECall(EVar(FN), <<Src>>)), SPrint(Src)>>

\* object pattern items
OItems == {"a", "b", "ra", "rb_", "us", "comp", "nest", "rest", "resta", "restus", "spr", "nonvar", "dupa", "miss",
           "ikey", "vkey"}
KV == <<107, 118>>          \* the variable kv holds "b"
KA == <<97>>
KB == <<98>>
KC == <<99>>
OItemE(it) ==
    CASE it = "a"    -> Short(V(1))
      [] it = "b"    -> Short(V(2))
      [] it = "ra"   -> Pair(EStr(KA), V(3))                     \* "a": c
      [] it = "rb_"  -> Pair(EStr(KB), EVar(N_us))               \* "b": _
      [] it = "us"   -> Short(EVar(N_us))
      [] it = "comp" -> Pair(EBin("+", EStr(<<>>), EStr(KB)), V(4))     \* ("" + "b"): d
      [] it = "nest" -> Pair(EStr(KC), EPat(<<V(5)>>))           \* "c": [e]
      [] it = "ikey" -> Pair(EIStr(<<Lit(<<>>), SlotP(0, EVar(KV)), Lit(<<>>)>>), V(4))     \* $"${kv}": d
      [] it = "vkey" -> Pair(EVar(KV), V(4))                    \* kv: d  (the key is the variable's value)
      [] it = "rest" -> PCollect(Rest)
      [] it = "resta" -> PCollect(V(1))                         \* ..a   (collect into a name of the pattern)
      [] it = "restus" -> PCollect(EVar(N_us))
      [] it = "spr"  -> PSpread(V(2))
      [] it = "nonvar" -> Short(I(1))
      [] it = "dupa" -> Pair(EStr(KB), V(1))                     \* "b": a   (a second binding of a)
      [] it = "miss" -> Short(EVar(<<122>>))                     \* z: not a property
ONames(it) ==
    CASE it \in {"a", "dupa", "resta"} -> <<V(1)>> [] it \in {"b", "spr"} -> <<V(2)>> [] it = "ra" -> <<V(3)>>
      [] it \in {"comp", "ikey", "vkey"} -> <<V(4)>> [] it = "nest" -> <<V(5)>> [] it = "rest" -> <<Rest>>
      [] it = "miss" -> <<EVar(<<122>>)>> [] OTHER -> <<>>
ObjPat(items) == EObj([i \in 1 .. Len(items) |-> OItemE(items[i])])
NamesOfO(items) == Concat([i \in 1 .. Len(items) |-> ONames(items[i])])
OSrcs == {"e", "a", "ab", "abc", "abd", "abr", "null", "list", "int"}
SrcObj(sx) ==
    CASE sx = "e"   -> EObj(<<>>)
      [] sx = "a"   -> EObj(<<Pair(EStr(KA), I(1))>>)
      [] sx = "ab"  -> EObj(<<Pair(EStr(KB), I(2)), Pair(EStr(KA), I(1))>>)
      [] sx = "abc" -> EObj(<<Pair(EStr(KA), I(1)), Pair(EStr(KB), I(2)), Pair(EStr(KC), EList(<<I(3)>>))>>)
      \* with decoys: a key that is the *text* of an interpolated key, and the name of the key variable
      [] sx = "abd" -> EObj(<<Pair(EStr(KA), I(1)), Pair(EStr(KB), I(2)), Pair(EStr(<<36, 123, 107, 118, 125>>), I(98)),
                              Pair(EStr(KV), I(97))>>)
      [] sx = "abr" -> EObj(<<Pair(EStr(KA), I(1)), Pair(EStr(<<114, 115>>), I(5)), Pair(EStr(KB), I(2)), Pair(EStr(<<118, 49>>), I(6))>>)
      [] sx = "null" -> ENull
      [] sx = "list" -> EList(<<I(1)>>)
      [] sx = "int"  -> I(7)

\* calls: argument segments (plain value or spread list of 0..2 values) against parameters
Segs == {"p", "s0", "s1", "s2"}
SegItems(sg, base) ==
    CASE sg = "p"  -> <<Item(I(base))>>
      [] sg = "s0" -> <<Spread(EList(<<>>))>>
      [] sg = "s1" -> <<Spread(EList(<<I(base)>>))>>
      [] sg = "s2" -> <<Spread(EList(<<I(base), I(base + 1)>>))>>
SegVals(sg, base) ==
    CASE sg = "p" -> <<I(base)>> [] sg = "s0" -> <<>> [] sg = "s1" -> <<I(base)>>
      [] sg = "s2" -> <<I(base), I(base + 1)>>
FParams(n, collect) == [i \in 1 .. n |-> V(i)] \o (IF collect THEN <<Rest>> ELSE <<>>)
CallProg(segs, n, collect) ==
    LET ps == FParams(n, collect)
        args == Concat([i \in 1 .. Len(segs) |-> SegItems(segs[i], 10 * i)])
        vals == Concat([i \in 1 .. Len(segs) |-> SegVals(segs[i], 10 * i)]) IN
    <<SFn(FN, ps, collect, PrintAll(ps)),
      SPrint(I(0)),
      SExpr(ECallOf(EVar(FN), [i \in 1 .. Len(vals) |-> Item(vals[i])])),     \* written out
      SPrint(I(0)),
      SExpr(ECallOf(EVar(FN), args))>>                                         \* with spreads

\* `for` targets written directly (the pair [key, value] is what is destructured)
KK2 == EVar(<<107, 107>>)
ForTargets == [
  kv      |-> EPat(<<KK2, V(1)>>),
  krest   |-> EPatRest(<<KK2, Rest>>),
  rest    |-> EPatRest(<<Rest>>),
  kvrest  |-> EPatRest(<<KK2, V(1), Rest>>),
  one     |-> EPat(<<KK2>>),
  three   |-> EPat(<<KK2, V(1), V(2)>>),
  name    |-> V(3),
  us      |-> EVar(N_us),
  ksub    |-> EPat(<<KK2, EPat(<<V(4), V(5)>>)>>),
  ksubrest |-> EPat(<<KK2, EPatRest(<<V(4), Rest>>)>>),
  kobj    |-> EPat(<<KK2, EObj(<<Short(EVar(<<107>>))>>)>>),
  usus    |-> EPat(<<EVar(N_us), EVar(N_us)>>),
  dup     |-> EPat(<<KK2, KK2>>),
  obj     |-> EObj(<<Short(V(1))>>),
  usrest  |-> EPatRest(<<EVar(N_us), Rest>>)
]
ForTargetNames(ft) ==
    CASE ft \in {"kv"} -> <<KK2, V(1)>> [] ft \in {"krest", "usrest"} -> <<Rest>> [] ft = "rest" -> <<Rest>>
      [] ft = "kvrest" -> <<KK2, V(1), Rest>> [] ft = "one" -> <<KK2>> [] ft = "three" -> <<KK2>>
      [] ft = "name" -> <<V(3)>> [] ft = "ksub" -> <<V(4), V(5)>> [] ft = "ksubrest" -> <<V(4), Rest>>
      [] ft = "kobj" -> <<EVar(<<107>>)>> [] OTHER -> <<>>
ForIters == [
  ints   |-> SrcList("ints", 2), nested |-> SrcList("nested", 2), objs |-> SrcList("objs", 2),
  str    |-> EStr(<<97, 195, 169>>), obj |-> EObj(<<Pair(EStr(KB), I(2)), Pair(EStr(KA), EList(<<I(1), I(9)>>))>>),
  empty  |-> EList(<<>>)
]

\* parameter tuples <<family, items, flag-or-source, n, position>>
C13Params ==
    { <<"lp", its, sk, n, pos>> :
        its \in UNION {ItemSeqs(m, LItems) : m \in 0 .. MaxPat}, sk \in {"ints:c", "ints:n", "nested:n", "objs:c"},
        n \in 0 .. MaxSrc, pos \in Positions }
    \cup { <<"lp", its, sk, 0, pos>> :
        its \in UNION {ItemSeqs(m, LItems) : m \in 0 .. 1}, sk \in {"null:n", "int:c", "str:n", "obj:n"},
        pos \in Positions }
    \cup { <<"op", its, sx, 0, pos>> :
        its \in UNION {ItemSeqs(m, OItems) : m \in 0 .. MaxPat}, sx \in OSrcs, pos \in {"decl", "assign"} }
    \cup { <<"op", its, sx, 0, pos>> :
        its \in UNION {ItemSeqs(m, OItems \ {"spr", "nonvar", "miss"}) : m \in 1 .. 2}, sx \in {"ab", "abc"},
        pos \in {"for", "param"} }
    \cup { <<"fort", <<ft>>, it, 0, "-">> : ft \in DOMAIN ForTargets, it \in DOMAIN ForIters }
    \cup { <<"lpa", its, "ints:n", n, pos>> :          \* [items.., ..a] : the rest is collected into `a`
             its \in UNION {ItemSeqs(m, {"a", "b", "_", "sub"}) : m \in 0 .. 2}, n \in 0 .. MaxSrc, pos \in Positions }
    \cup { <<"methodspread", <<>>, IF cl THEN "rest" ELSE "exact", n, "-">> : cl \in BOOLEAN, n \in 0 .. 2 }
    \cup { <<"badrest", <<>>, pos, n, "-">> : pos \in {"decl", "assign", "for", "param"}, n \in 0 .. 2 }
    \cup { <<"spreadkind", <<>>, sk, 0, where>> : sk \in {"null", "int", "str", "obj"}, where \in {"list", "call", "first"} }
    \cup { <<"law", <<"collect">>, "-", n, ToString(m)>> : n \in 0 .. MaxSrc + 1, m \in 0 .. 3 }
    \cup { <<"law", <<"objrest">>, sx, 0, "-">> : sx \in {"a", "ab", "abc"} }
    \cup { <<"law", <<"concat">>, "-", n, ToString(m)>> : n \in 0 .. 3, m \in 0 .. 3 }
    \cup { <<"law", <<"restfresh">>, "-", n, "-">> : n \in 1 .. 3 }
    \cup { <<"call", segs, IF cl THEN "rest" ELSE "exact", n, "-">> :
        segs \in UNION {ItemSeqs(m, Segs) : m \in 0 .. 3}, cl \in BOOLEAN, n \in 0 .. 3 }

SplitKind(sk) == IF sk \in {"ints:c", "ints:n"} THEN "ints" ELSE
                 IF sk = "nested:n" THEN "nested" ELSE IF sk = "objs:c" THEN "objs" ELSE
                 IF sk = "null:n" THEN "null" ELSE IF sk = "int:c" THEN "int" ELSE
                 IF sk = "str:n" THEN "str" ELSE "obj"
SplitCollect(sk) == sk \in {"ints:c", "objs:c", "int:c"}

C13ProgOf(p) ==
    CASE p[1] = "lp" ->
            BindAt(p[5], ListPat(p[2], SplitCollect(p[3])), SrcList(SplitKind(p[3]), p[4]),
                   NamesOfL(p[2], SplitCollect(p[3])))
      [] p[1] = "op" -> <<SDecl(EVar(KV), EStr(KB))>> \o BindAt(p[5], ObjPat(p[2]), SrcObj(p[3]), NamesOfO(p[2]))
      \* `[a, ..b..]`: the collecting item may not be a spread as well
      \* o.f(xs..) = o.f(xs[0], .., xs[n-1]): the receiver is no argument
      [] p[1] = "methodspread" ->
            LET ps == FParams(p[4], p[3] = "rest") IN
            <<SDecl(Src, EObj(<<Pair(EStr(<<116>>), I(7)), Pair(EStr(<<102>>), EFunc(ps, p[3] = "rest", PrintAll(ps) \o <<SPrint(EProp(EVar(N_this), <<116>>))>>))>>)),
              SDecl(V(5), EList(<<I(10), I(20)>>)),
              SPrint(I(0)), SExpr(ECall(EProp(Src, <<102>>), <<I(10), I(20)>>)),
              SPrint(I(0)), SExpr(ECallOf(EProp(Src, <<102>>), <<Spread(V(5))>>)),
              SPrint(I(0)), SExpr(ECallOf(EIndex(Src, EStr(<<102>>)), <<Item(I(10)), Spread(ERIndex(V(5), I(1), ENone))>>))>>
      [] p[1] = "badrest" ->
            LET pat == [t |-> "list", loc |-> NL, collect |-> TRUE,
                        items |-> [i \in 1 .. p[4] |-> Item(V(i))] \o <<Spread(Rest)>>] IN
            <<SPrint(I(0))>> \o BindAt(p[3], pat, SrcList("ints", 3), <<>>)
      \* only lists can be spread in lists and calls
      [] p[1] = "spreadkind" ->
            <<SFn(FN, <<Rest>>, TRUE, <<SReturn(Rest)>>), SDecl(Src, SrcList(p[3], 0)), SPrint(I(0)),
              SPrint(CASE p[5] = "list" -> EListOf(<<Item(I(1)), Spread(Src)>>)
                       [] p[5] = "first" -> EListOf(<<Spread(Src), Item(I(1))>>)
                       [] p[5] = "call" -> ECallOf(EVar(FN), <<Item(I(1)), Spread(Src)>>))>>
      [] p[1] = "fort" -> <<SFor(ForTargets[p[2][1]], ForIters[p[3]], PrintAll(ForTargetNames(p[2][1]))), SPrint(I(0))>>
      [] p[1] = "lpa" -> BindAt(p[5], ListPatInto(p[2], V(1)), SrcList("ints", p[4]),
                                Concat([i \in 1 .. Len(p[2]) |-> LNames(p[2][i])]) \o <<V(1)>>)
      [] p[1] = "law" /\ p[2][1] = "collect" ->
            \* [p1..pm, ..rest] := xs ; [p1..pm] + rest == xs
            LET m == IF p[5] = "0" THEN 0 ELSE IF p[5] = "1" THEN 1 ELSE IF p[5] = "2" THEN 2 ELSE 3
                names == [i \in 1 .. m |-> V(i)] IN
            <<SDecl(Src, SrcList("ints", p[4])),
              SDecl(EPatRest(names \o <<Rest>>), Src),
              SPrint(EBin("==", EBin("+", EList(names), Rest), Src)),
              SPrint(EBin("===", Rest, Src))>>
      [] p[1] = "law" /\ p[2][1] = "objrest" ->
            <<SDecl(Src, SrcObj(p[3])),
              SDecl(EObj(<<Short(V(1)), PCollect(Rest)>>), Src),
              SPrint(EBin("==", EObj(<<Pair(EStr(KA), V(1)), PSpread(Rest)>>), Src)),
              SPrint(Rest)>>
      [] p[1] = "law" /\ p[2][1] = "concat" ->
            LET m == IF p[5] = "0" THEN 0 ELSE IF p[5] = "1" THEN 1 ELSE IF p[5] = "2" THEN 2 ELSE 3 IN
            <<SDecl(V(1), SrcList("ints", p[4])), SDecl(V(2), SrcList("nested", m)),
              SPrint(EBin("==", EListOf(<<Spread(V(1)), Spread(V(2))>>), EBin("+", V(1), V(2)))),
              SPrint(EListOf(<<Spread(V(1)), Item(I(0)), Spread(V(2))>>))>>
      [] p[1] = "law" /\ p[2][1] = "restfresh" ->
            <<SFn(FN, <<Rest>>, TRUE, <<SAssign(EIndex(Rest, I(0)), I(99)), SPrint(Rest)>>),
              SDecl(Src, SrcList("ints", p[4])),
              SExpr(ECallOf(EVar(FN), <<Spread(Src)>>)), SPrint(Src)>>
      [] p[1] = "call" -> CallProg(p[2], p[4], p[3] = "rest")

-----------------------------------------------------------------------------
Finished == status.k # "running"
NumOf(sx) == IF sx = "0" THEN 0 ELSE IF sx = "1" THEN 1 ELSE IF sx = "2" THEN 2 ELSE 3
LawsHold ==
    (Finished /\ pi[1] = "law") =>
        IF pi[2][1] = "collect" /\ pi[4] < NumOf(pi[5])
        THEN status.k = "failed" /\ status.diag.kind = "ListCollectTooFew"     \* at least n elements
        ELSE /\ status.k = "done"
             /\ pi[2][1] \in {"collect", "objrest", "concat"} => out[1] = T_true
             /\ pi[2][1] = "collect" => out[2] = T_false          \* the rest is a fresh list
\* f(xs..) behaves as f(xs[0], .., xs[n-1]): the two calls print the same, fail the same
SpreadCallEquiv ==
    (Finished /\ pi[1] = "call") =>
        LET z == {i \in 1 .. Len(out) : out[i] = <<48>>} IN
        IF status.k = "done"
        THEN Cardinality(z) = 2 /\
             LET i1 == Min(z) i2 == Max(z) IN
             SubSeq(out, i1 + 1, i2 - 1) = SubSeq(out, i2 + 1, Len(out))
        ELSE Cardinality(z) = 1 /\ status.diag.kind \in {"ArgNumMismatch", "TooFewArgs"}
BadRestIsError == (Finished /\ pi[1] \in {"badrest", "spreadkind"}) => status.k = "failed"
C13Laws == LawsHold /\ SpreadCallEquiv /\ BadRestIsError
=============================================================================
