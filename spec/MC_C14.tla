------------------------------- MODULE MC_C14 -------------------------------
(***************************************************************************)
(* C14 -- calls bind arguments to fresh parameters; `this` follows the     *)
(* access path.                                                            *)
(*   this   a function (named / anonymous / defined inside an object)      *)
(*          attached to objects o1 (tag 1), o2 (tag 2, also holding o1's   *)
(*          function), o3 (tag 3, holding o1 as `inner`), read through     *)
(*          `.` / `[]` chains, moved through variable / argument / list /  *)
(*          return / re-store / destructuring / for, then called           *)
(*   args   arities 0..3 with and without `..rest` against 0..4 arguments  *)
(*          whose evaluation is visible (a tracing function), callee       *)
(*          expression with a visible effect                               *)
(*   fresh  assigning a parameter vs mutating a passed container           *)
(* `ExpectedTag` is the rule of the property written down independently:   *)
(* `this` is the object the function value was last read from.             *)
(***************************************************************************)
EXTENDS SeedMC

I(n) == EInt(n)
Nm(s) == EVar(s)
F == <<102>>
G == <<103>>
H == <<104>>
O1 == <<111, 49>>
O2 == <<111, 50>>
O3 == <<111, 51>>
TAG == <<116, 97, 103>>
FK == <<102>>            \* property name "f"
INNER == <<105, 110, 110, 101, 114>>
T == <<116>>
ThisTag == EProp(EVar(N_this), TAG)

Defs == {"named", "anon", "inobj"}
\* the function value that is attached to o1 under "f"
DefStmts(d) ==
    CASE d = "named" -> <<SFn(F, <<>>, FALSE, <<SReturn(ThisTag)>>),
                          SDecl(Nm(O1), EObj(<<Pair(EStr(TAG), I(1)), Pair(EStr(FK), Nm(F))>>))>>
      [] d = "anon"  -> <<SDecl(Nm(F), EFunc(<<>>, FALSE, <<SReturn(ThisTag)>>)),
                          SDecl(Nm(O1), EObj(<<Pair(EStr(TAG), I(1)), Short(Nm(F))>>))>>
      [] d = "inobj" -> <<SDecl(Nm(O1), EObj(<<Pair(EStr(TAG), I(1)),
                                               Pair(EStr(FK), EFunc(<<>>, FALSE, <<SReturn(ThisTag)>>))>>)),
                          SDecl(Nm(F), I(0))>>
Setup(d) ==
    DefStmts(d)
    \o <<SDecl(Nm(O2), EObj(<<Pair(EStr(TAG), I(2)), Pair(EStr(FK), EProp(Nm(O1), FK))>>)),
         SDecl(Nm(O3), EObj(<<Pair(EStr(TAG), I(3)), Pair(EStr(INNER), Nm(O1))>>)),
         SFn(<<99, 97, 108, 108>>, <<Nm(H)>>, FALSE, <<SReturn(ECall(Nm(H), <<>>))>>)>>

Reads == {"o1.f", "o1[f]", "o2.f", "o2[f]", "o3.inner.f", "o3[inner][f]", "bare"}
ReadE(r) ==
    CASE r = "o1.f" -> EProp(Nm(O1), FK)
      [] r = "o1[f]" -> EIndex(Nm(O1), EStr(FK))
      [] r = "o2.f" -> EProp(Nm(O2), FK)
      [] r = "o2[f]" -> EIndex(Nm(O2), EStr(FK))
      [] r = "o3.inner.f" -> EProp(EProp(Nm(O3), INNER), FK)
      [] r = "o3[inner][f]" -> EIndex(EIndex(Nm(O3), EStr(INNER)), EStr(FK))
      [] r = "bare" -> Nm(F)
ReadTag(r) == CASE r \in {"o1.f", "o1[f]", "o3.inner.f", "o3[inner][f]"} -> 1
                [] r \in {"o2.f", "o2[f]"} -> 2
                [] r = "bare" -> 0

Moves == {"direct", "var", "var2", "arg", "list", "return", "restore", "destruct", "for", "spreadlist", "reassign",
          "rangeassign", "concat", "slice", "restparam"}
MoveStmts(m, e) ==
    CASE m = "direct"  -> <<SPrint(ECall(e, <<>>))>>
      [] m = "var"     -> <<SDecl(Nm(G), e), SPrint(ECall(Nm(G), <<>>))>>
      [] m = "var2"    -> <<SDecl(Nm(G), e), SDecl(Nm(H), Nm(G)), SPrint(ECall(Nm(H), <<>>))>>
      [] m = "arg"     -> <<SPrint(ECall(Nm(<<99, 97, 108, 108>>), <<e>>))>>
      [] m = "list"    -> <<SPrint(ECall(EIndex(EList(<<e>>), I(0)), <<>>))>>
      [] m = "return"  -> <<SFn(G, <<>>, FALSE, <<SReturn(e)>>), SPrint(ECall(ECall(Nm(G), <<>>), <<>>))>>
      [] m = "restore" -> <<SPrint(ECall(EProp(EObj(<<Pair(EStr(TAG), I(9)), Pair(EStr(FK), e)>>), FK), <<>>))>>
      [] m = "destruct" -> <<SDecl(EPat(<<Nm(G)>>), EList(<<e>>)), SPrint(ECall(Nm(G), <<>>))>>
      [] m = "for"     -> <<SFor(EPat(<<EVar(N_us), Nm(G)>>), EList(<<e>>), <<SPrint(ECall(Nm(G), <<>>))>>)>>
      [] m = "spreadlist" -> <<SDecl(Nm(G), EListOf(<<Spread(EList(<<e>>))>>)),
                               SPrint(ECall(EIndex(Nm(G), I(0)), <<>>))>>
      [] m = "reassign" -> <<SDecl(Nm(G), I(0)), SAssign(Nm(G), e), SPrint(ECall(Nm(G), <<>>))>>
      [] m = "rangeassign" -> <<SDecl(Nm(G), EList(<<I(0), I(0)>>)), SAssign(ERIndex(Nm(G), I(1), I(2)), EList(<<e>>)),
                                SPrint(ECall(EIndex(Nm(G), I(1)), <<>>))>>
      [] m = "concat" -> <<SDecl(Nm(G), EBin("+", EList(<<I(0)>>), EList(<<e>>))), SDecl(Nm(H), EIndex(Nm(G), I(1))),
                           SPrint(ECall(Nm(H), <<>>))>>
      [] m = "slice" -> <<SDecl(Nm(G), ERIndex(EList(<<I(0), e>>), I(1), ENone)), SDecl(Nm(H), EIndex(Nm(G), I(0))),
                          SPrint(ECall(Nm(H), <<>>))>>
      [] m = "restparam" -> <<SFn(G, <<Nm(H)>>, TRUE, <<SReturn(ECall(EIndex(Nm(H), I(0)), <<>>))>>), SPrint(ECall(Nm(G), <<e>>))>>
MoveTag(m, tag) == IF m = "restore" THEN 9 ELSE tag

\* a first carrier, then a second move
GG == <<103, 103>>
RR == <<114, 114>>
Carriers == {"cvar", "clist", "creturn", "crestore"}
CarrierPre(cr, e) ==
    CASE cr = "cvar" -> <<SDecl(Nm(GG), e)>>
      [] cr = "creturn" -> <<SFn(RR, <<>>, FALSE, <<SReturn(e)>>)>>
      [] OTHER -> <<>>
CarrierE(cr, e) ==
    CASE cr = "cvar" -> Nm(GG)
      [] cr = "clist" -> EIndex(EList(<<I(0), e>>), I(1))
      [] cr = "creturn" -> ECall(Nm(RR), <<>>)
      [] cr = "crestore" -> EProp(EObj(<<Pair(EStr(TAG), I(8)), Pair(EStr(FK), e)>>), FK)
CarrierTag(cr, tag) == IF cr = "crestore" THEN 8 ELSE tag

\* a function defined inside a method sees the method's `this` (lexically);
\* a function never reached through an object has none
Lexical ==
    [ innerthis |-> <<SDecl(Nm(O1), EObj(<<Pair(EStr(TAG), I(1)),
                        Pair(EStr(FK), EFunc(<<>>, FALSE,
                             <<SFn(G, <<>>, FALSE, <<SReturn(ThisTag)>>), SReturn(ECall(Nm(G), <<>>))>>))>>)),
                    SPrint(ECall(EProp(Nm(O1), FK), <<>>))>>,
      nothis    |-> <<SFn(G, <<>>, FALSE, <<SReturn(ThisTag)>>), SPrint(ECall(Nm(G), <<>>))>>,
      thisvar   |-> <<SDecl(EVar(N_this), EObj(<<Pair(EStr(TAG), I(5))>>)),
                      SFn(G, <<>>, FALSE, <<SReturn(ThisTag)>>), SPrint(ECall(Nm(G), <<>>))>>,
      opdrops   |-> <<SFn(F, <<>>, FALSE, <<SReturn(I(1))>>),
                      SDecl(Nm(O1), EObj(<<Pair(EStr(FK), EList(<<Nm(F)>>))>>)),
                      SDecl(Nm(G), EBin("+", EProp(Nm(O1), FK), EList(<<>>))),
                      SPrint(EBin("===", EIndex(Nm(G), I(0)), Nm(F)))>>,
      builtinobj |-> <<SDecl(Nm(O1), EObj(<<Pair(EStr(FK), EVar(N_print))>>)),
                       SExpr(ECall(EProp(Nm(O1), FK), <<I(1)>>))>>,
      \* a function never reached through an object has no `this`, also when a method calls it
      helperinmethod |-> <<SFn(H, <<>>, FALSE, <<SReturn(ThisTag)>>),
                           SDecl(Nm(O1), EObj(<<Pair(EStr(TAG), I(1)),
                                                Pair(EStr(FK), EFunc(<<>>, FALSE, <<SReturn(ECall(Nm(H), <<>>))>>))>>)),
                           SPrint(ECall(EProp(Nm(O1), FK), <<>>))>>,
      \* a closure created in a method keeps that method's `this`, whoever calls it
      closurekeeps |-> <<SDecl(Nm(O1), EObj(<<Pair(EStr(TAG), I(1)),
                            Pair(EStr(<<109, 107>>), EFunc(<<>>, FALSE, <<SReturn(EFunc(<<>>, FALSE, <<SReturn(ThisTag)>>))>>))>>)),
                         SDecl(Nm(O2), EObj(<<Pair(EStr(TAG), I(2)),
                            Pair(EStr(<<114, 117, 110>>), EFunc(<<Nm(H)>>, FALSE, <<SReturn(ECall(Nm(H), <<>>))>>))>>)),
                         SDecl(Nm(G), ECall(EProp(Nm(O1), <<109, 107>>), <<>>)),
                         SPrint(ECall(Nm(G), <<>>)),
                         SPrint(ECall(EProp(Nm(O2), <<114, 117, 110>>), <<Nm(G)>>))>>,
      \* a method passed to and called by another object's method keeps its own object
      methodviamethod |-> <<SDecl(Nm(O1), EObj(<<Pair(EStr(TAG), I(1)), Pair(EStr(FK), EFunc(<<>>, FALSE, <<SReturn(ThisTag)>>))>>)),
                            SDecl(Nm(O2), EObj(<<Pair(EStr(TAG), I(2)),
                               Pair(EStr(<<114, 117, 110>>), EFunc(<<Nm(H)>>, FALSE, <<SReturn(EList(<<ECall(Nm(H), <<>>), ThisTag>>))>>))>>)),
                            SPrint(ECall(EProp(Nm(O2), <<114, 117, 110>>), <<EProp(Nm(O1), FK)>>))>>,
      \* assignment replaces the provenance of the slot
      assignreplaces |-> <<SDecl(Nm(O1), EObj(<<Pair(EStr(TAG), I(1)), Pair(EStr(FK), EFunc(<<>>, FALSE, <<SReturn(ThisTag)>>))>>)),
                           SDecl(Nm(O2), EObj(<<Pair(EStr(TAG), I(2)), Pair(EStr(FK), EProp(Nm(O1), FK))>>)),
                           SDecl(Nm(G), EProp(Nm(O1), FK)), SAssign(Nm(G), EProp(Nm(O2), FK)), SPrint(ECall(Nm(G), <<>>)),
                           SDecl(Nm(H), EList(<<EProp(Nm(O1), FK)>>)), SAssign(EIndex(Nm(H), I(0)), EProp(Nm(O2), FK)),
                           SPrint(ECall(EIndex(Nm(H), I(0)), <<>>)),
                           SAssign(EProp(Nm(O1), FK), EProp(Nm(O2), FK)), SPrint(ECall(EProp(Nm(O1), FK), <<>>))>>,
      \* assigning a function that was never read from an object removes the receiver the slot had
      assignplain |-> <<SFn(F, <<>>, FALSE, <<SReturn(ThisTag)>>),
                        SDecl(Nm(O1), EObj(<<Pair(EStr(TAG), I(1)), Pair(EStr(FK), Nm(F))>>)),
                        SDecl(Nm(G), EProp(Nm(O1), FK)), SPrint(ECall(Nm(G), <<>>)),
                        SDecl(Nm(H), EList(<<EProp(Nm(O1), FK)>>)), SAssign(EIndex(Nm(H), I(0)), Nm(F)),
                        SAssign(Nm(G), Nm(F)), SPrint(I(5)), SPrint(ECall(Nm(G), <<>>))>>,
      assignplainlist |-> <<SFn(F, <<>>, FALSE, <<SReturn(ThisTag)>>),
                            SDecl(Nm(O1), EObj(<<Pair(EStr(TAG), I(1)), Pair(EStr(FK), Nm(F))>>)),
                            SDecl(Nm(H), EList(<<EProp(Nm(O1), FK)>>)), SPrint(ECall(EIndex(Nm(H), I(0)), <<>>)),
                            SAssign(EIndex(Nm(H), I(0)), Nm(F)), SPrint(I(5)), SPrint(ECall(EIndex(Nm(H), I(0)), <<>>))>>,
      assignplainprop |-> <<SFn(F, <<>>, FALSE, <<SReturn(ThisTag)>>),
                            SDecl(Nm(O1), EObj(<<Pair(EStr(TAG), I(1)), Pair(EStr(FK), Nm(F))>>)),
                            SDecl(Nm(O2), EObj(<<Pair(EStr(TAG), I(2)), Pair(EStr(FK), EProp(Nm(O1), FK))>>)),
                            SAssign(EProp(Nm(O2), FK), Nm(F)), SPrint(ECall(EProp(Nm(O2), FK), <<>>)),
                            SDecl(Nm(G), EProp(Nm(O2), FK)), SAssign(Nm(G), ENull), SAssign(Nm(G), Nm(F)), SPrint(ECall(Nm(G), <<>>))>>,
      \* a method that mentions `this` only inside an interpolation slot, a nested function, a default position
      thisinslot |-> <<SDecl(Nm(O1), EObj(<<Pair(EStr(TAG), EStr(<<111, 110, 101>>)),
                            Pair(EStr(FK), EFunc(<<>>, FALSE, <<SReturn(EIStr(<<Lit(<<60>>), SlotP(0, ThisTag), Lit(<<62>>)>>))>>))>>)),
                       SDecl(Nm(O2), EObj(<<Pair(EStr(TAG), EStr(<<116, 119, 111>>)),
                            Pair(EStr(FK), EProp(Nm(O1), FK)),
                            Pair(EStr(<<103>>), EFunc(<<>>, FALSE, <<SReturn(ECall(EProp(Nm(O1), FK), <<>>))>>))>>)),
                       SPrint(ECall(EProp(Nm(O1), FK), <<>>)), SPrint(ECall(EProp(Nm(O2), FK), <<>>)),
                       SPrint(ECall(EProp(Nm(O2), <<103>>), <<>>)),
                       SDecl(Nm(G), EProp(Nm(O1), FK)), SPrint(ECall(Nm(G), <<>>)),
                       SDecl(Nm(H), EFunc(<<>>, FALSE, <<SReturn(EIStr(<<Lit(<<>>), SlotP(0, ThisTag), Lit(<<>>)>>))>>)),
                       SPrint(ECall(Nm(H), <<>>))>>,
      thisinnested |-> <<SDecl(Nm(O1), EObj(<<Pair(EStr(TAG), I(1)),
                              Pair(EStr(FK), EFunc(<<>>, FALSE,
                                   <<SDecl(Nm(G), EFunc(<<>>, FALSE, <<SReturn(EIStr(<<Lit(<<>>), SlotP(0, ECall(ETProp(ThisTag, N_type), <<>>)), Lit(<<>>)>>))>>)),
                                     SReturn(ECall(Nm(G), <<>>))>>))>>)),
                         SPrint(ECall(EProp(Nm(O1), FK), <<>>)),
                         SDecl(Nm(H), EProp(Nm(O1), FK)), SPrint(ECall(Nm(H), <<>>))>>,
      \* every call has its own `this`: calling a closure through another object does not disturb the `this` of
      \* the method it was made in, nor of the method that is running
      closurerebind |-> <<SDecl(Nm(O1), EObj(<<Pair(EStr(TAG), I(1)),
                              Pair(EStr(<<109, 107>>), EFunc(<<>>, FALSE, <<SReturn(EFunc(<<>>, FALSE, <<SReturn(ThisTag)>>))>>))>>)),
                          SDecl(Nm(G), ECall(EProp(Nm(O1), <<109, 107>>), <<>>)),
                          SDecl(Nm(O2), EObj(<<Pair(EStr(TAG), I(2)), Pair(EStr(<<103, 101, 116>>), Nm(G)),
                              Pair(EStr(<<119, 104, 111>>), EFunc(<<Nm(H)>>, FALSE,
                                   <<SReturn(EList(<<ECall(EProp(Nm(H), <<103, 101, 116>>), <<>>), ThisTag>>))>>))>>)),
                          SPrint(ECall(Nm(G), <<>>)), SPrint(ECall(EProp(Nm(O2), <<103, 101, 116>>), <<>>)), SPrint(ECall(Nm(G), <<>>)),
                          SDecl(Nm(O3), EObj(<<Pair(EStr(TAG), I(3)), Pair(EStr(<<103, 101, 116>>), Nm(G))>>)),
                          SPrint(ECall(EProp(Nm(O2), <<119, 104, 111>>), <<Nm(O3)>>)), SPrint(ECall(Nm(G), <<>>))>>,
      typefnobj |-> <<SDecl(Nm(O1), EObj(<<Pair(EStr(FK), ETProp(EStr(<<104, 195, 169>>), N_len)),
                                             Pair(EStr(<<103>>), ETProp(EList(<<>>), N_type))>>)),
                      SPrint(I(1)), SPrint(ECall(EProp(Nm(O1), <<103>>), <<>>)), SPrint(ECall(EProp(Nm(O1), FK), <<>>))>>,
      typefnvar |-> <<SDecl(Nm(G), ETProp(EStr(<<97, 98>>), N_len)), SPrint(ECall(Nm(G), <<>>)),
                      SDecl(Nm(H), ETProp(EList(<<>>), N_type)), SPrint(ECall(Nm(H), <<>>))>> ]

\* args: tracing function t(n) prints n and returns it
Tr(n) == ECall(Nm(T), <<I(n)>>)
ArgShapes == {"a0", "a1", "a2", "a3", "a4", "s2", "a1s2", "s0", "s1a1"}
ArgItems(sh) ==
    CASE sh = "a0" -> <<>>
      [] sh = "a1" -> <<Item(Tr(1))>>
      [] sh = "a2" -> <<Item(Tr(1)), Item(Tr(2))>>
      [] sh = "a3" -> <<Item(Tr(1)), Item(Tr(2)), Item(Tr(3))>>
      [] sh = "a4" -> <<Item(Tr(1)), Item(Tr(2)), Item(Tr(3)), Item(Tr(4))>>
      [] sh = "s2" -> <<Spread(EList(<<Tr(1), Tr(2)>>))>>
      [] sh = "a1s2" -> <<Item(Tr(1)), Spread(EList(<<Tr(2), Tr(3)>>))>>
      [] sh = "s0" -> <<Spread(EList(<<>>))>>
      [] sh = "s1a1" -> <<Spread(EList(<<Tr(1)>>)), Item(Tr(2))>>
NArgs(sh) == CASE sh = "a0" -> 0 [] sh = "a1" -> 1 [] sh = "a2" -> 2 [] sh = "a3" -> 3 [] sh = "a4" -> 4
               [] sh = "s2" -> 2 [] sh = "a1s2" -> 3 [] sh = "s0" -> 0 [] sh = "s1a1" -> 2
P(i) == EVar(<<112, 48 + i>>)
RS == EVar(<<114, 115>>)
ArgsProg(np, rest, sh) ==
    LET ps == [i \in 1 .. np |-> P(i)] \o (IF rest THEN <<RS>> ELSE <<>>) IN
    <<SFn(T, <<Nm(H)>>, FALSE, <<SPrint(Nm(H)), SReturn(Nm(H))>>),
      SFn(F, ps, rest, <<SPrint(I(100))>> \o [i \in 1 .. Len(ps) |-> SPrint(ps[i])]),
      \* the callee expression has a visible effect too: it runs after the arguments
      SFn(G, <<>>, FALSE, <<SPrint(I(200)), SReturn(Nm(F))>>),
      SPrint(ECallOf(ECall(Nm(G), <<>>), ArgItems(sh)))>>

Fresh ==
    [ assignparam |-> <<SDecl(Nm(G), I(1)), SFn(F, <<P(1)>>, FALSE, <<SAssign(P(1), I(2)), SPrint(P(1))>>),
                        SExpr(ECall(Nm(F), <<Nm(G)>>)), SPrint(Nm(G))>>,
      mutateparam |-> <<SDecl(Nm(G), EList(<<I(1)>>)),
                        SFn(F, <<P(1)>>, FALSE, <<SAssign(EIndex(P(1), I(0)), I(2)), SAssign(P(1), EList(<<>>))>>),
                        SExpr(ECall(Nm(F), <<Nm(G)>>)), SPrint(Nm(G))>>,
      sameparamname |-> <<SDecl(P(1), I(1)), SFn(F, <<P(1)>>, FALSE, <<SOpAssign(P(1), "+", I(5)), SPrint(P(1))>>),
                          SExpr(ECall(Nm(F), <<I(10)>>)), SPrint(P(1))>>,
      recursionfresh |-> <<SFn(F, <<P(1)>>, FALSE,
                               <<SIf(EBin(">", P(1), I(0)), <<SExpr(ECall(Nm(F), <<EBin("-", P(1), I(1))>>))>>),
                                 SPrint(P(1))>>),
                           SExpr(ECall(Nm(F), <<I(2)>>))>>,
      \* a rest parameter is a fresh list however the arguments were written
      restonlyspread |-> <<SFn(F, <<RS>>, TRUE, <<SAssign(EIndex(RS, I(0)), I(99)), SReturn(RS)>>),
                           SDecl(Nm(G), EList(<<I(1), I(2)>>)),
                           SDecl(Nm(H), ECallOf(Nm(F), <<Spread(Nm(G))>>)),
                           SPrint(Nm(H)), SPrint(Nm(G)), SPrint(EBin("===", Nm(H), Nm(G))),
                           SPrint(ECallOf(Nm(F), <<Item(I(5)), Spread(Nm(G))>>)), SPrint(Nm(G)),
                           SPrint(ECallOf(Nm(F), <<Spread(ERIndex(Nm(G), ENone, ENone))>>)), SPrint(Nm(G))>>,
      restassign |-> <<SFn(F, <<P(1), RS>>, TRUE, <<SAssign(RS, EList(<<>>)), SAssign(P(1), I(0)), SReturn(RS)>>),
                       SDecl(Nm(G), EList(<<I(1), I(2)>>)),
                       SPrint(ECallOf(Nm(F), <<Spread(Nm(G))>>)), SPrint(Nm(G)),
                       SFn(H, <<RS>>, TRUE, <<SOpAssign(RS, "+", EList(<<I(7)>>)), SReturn(RS)>>),
                       SPrint(ECallOf(Nm(H), <<Spread(Nm(G))>>)), SPrint(Nm(G))>>,
      \* an argument list written as a literal / a variable / a slice / a concatenation gives the same call
      spreadforms |-> <<SFn(F, <<P(1), P(2)>>, FALSE, <<SAssign(P(1), EBin("+", P(1), P(2))), SReturn(P(1))>>),
                        SDecl(Nm(G), EList(<<I(1), I(2)>>)),
                        SPrint(ECallOf(Nm(F), <<Spread(Nm(G))>>)),
                        SPrint(ECallOf(Nm(F), <<Spread(EList(<<I(1), I(2)>>))>>)),
                        SPrint(ECallOf(Nm(F), <<Spread(EBin("+", EList(<<I(1)>>), EList(<<I(2)>>)))>>)),
                        SPrint(ECallOf(Nm(F), <<Spread(ERIndex(Nm(G), I(0), I(1))), Spread(ERIndex(Nm(G), I(1), ENone))>>)),
                        SPrint(Nm(G))>>,
      objparam |-> <<SDecl(Nm(O1), EObj(<<Pair(EStr(TAG), I(1))>>)),
                     SFn(F, <<P(1)>>, FALSE, <<SAssign(EProp(P(1), TAG), I(2))>>),
                     SExpr(ECall(Nm(F), <<Nm(O1)>>)), SPrint(Nm(O1))>> ]

\* parameter tuples <<family, x, y, z, n>>
C14Params ==
    { <<"this", d, r, m, 0>> : d \in Defs, r \in Reads, m \in Moves }
    \cup { <<"this2", cr, r, m, 0>> : cr \in Carriers, r \in Reads, m \in Moves }
    \cup { <<"lex", l, "-", "-", 0>> : l \in DOMAIN Lexical }
    \cup { <<"args", sh, IF rest THEN "rest" ELSE "exact", "-", np>> :
             sh \in ArgShapes, rest \in BOOLEAN, np \in 0 .. 3 }
    \cup { <<"fresh", fx, "-", "-", 0>> : fx \in DOMAIN Fresh }

C14ProgOf(p) ==
    CASE p[1] = "this"  -> Setup(p[2]) \o MoveStmts(p[4], ReadE(p[3]))
      [] p[1] = "this2" -> Setup("named") \o CarrierPre(p[2], ReadE(p[3]))
                           \o MoveStmts(p[4], CarrierE(p[2], ReadE(p[3])))
      [] p[1] = "lex"   -> Lexical[p[2]]
      [] p[1] = "args"  -> ArgsProg(p[5], p[3] = "rest", p[2])
      [] p[1] = "fresh" -> Fresh[p[2]]

-----------------------------------------------------------------------------
Finished == status.k # "running"
ExpectedTag(p) == MoveTag(p[4], ReadTag(p[3]))
\* `this` is the object the function was last read from; a function never read
\* from an object has no `this`
ThisFollowsPath ==
    (Finished /\ pi[1] = "this") =>
        IF pi[2] = "inobj" /\ pi[3] = "bare"
        THEN status.k = "failed"                                \* `f` is the integer 0 there
        ELSE IF ExpectedTag(pi) = 0
        THEN status.k = "failed" /\ status.diag.kind = "Undefined"
        ELSE status.k = "done" /\ out = <<DecBytes(ExpectedTag(pi))>>
ThisFollowsPath2 ==
    (Finished /\ pi[1] = "this2") =>
        LET tag == MoveTag(pi[4], CarrierTag(pi[2], ReadTag(pi[3]))) IN
        IF tag = 0 THEN status.k = "failed" /\ status.diag.kind = "Undefined"
        ELSE status.k = "done" /\ out = <<DecBytes(tag)>>
\* each argument is evaluated once, left to right, before the callee; then the
\* count is checked; then the body runs
ArgsRule ==
    (Finished /\ pi[1] = "args") =>
        LET n == NArgs(pi[2])
            np == pi[5]
            rest == pi[3] = "rest"
            okCount == IF rest THEN n >= np ELSE n = np
            trace == [i \in 1 .. n |-> DecBytes(i)] \o <<DecBytes(200)>> IN
        /\ SubSeq(out, 1, n + 1) = trace
        /\ IF okCount THEN status.k = "done" /\ out[n + 2] = DecBytes(100)
           ELSE status.k = "failed" /\ Len(out) = n + 1
                /\ status.diag.kind = (IF rest THEN "TooFewArgs" ELSE "ArgNumMismatch")
C14Laws == ThisFollowsPath /\ ThisFollowsPath2 /\ ArgsRule
=============================================================================
