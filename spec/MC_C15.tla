------------------------------- MODULE MC_C15 -------------------------------
(***************************************************************************)
(* C15 -- strings: interpolation equals concatenation, byte semantics,     *)
(* Unicode-safe.  (The escape rules themselves are SeedLex's, checked in   *)
(* MC_Lex with the string alphabet.)                                       *)
(*   interp  literal pieces over {empty, ASCII, 2-, 3-, 4-byte characters, *)
(*           braces, `$`, quote, backslash, newline} around 0..MaxSlots    *)
(*           slots; slot expressions: variable, concatenation, call, an    *)
(*           object literal read (braces in the slot), a nested literal    *)
(*           (quotes in the slot), a nested interpolated literal, and      *)
(*           non-string values                                             *)
(*   bytes   ->len(), indexing, range-indexing, `for` and == on strings    *)
(*           with multi-byte characters                                    *)
(***************************************************************************)
EXTENDS SeedMC

CONSTANTS MaxSlots

I(n) == EInt(n)
Nm(s) == EVar(s)
Vv == Nm(<<118>>)
Rr == Nm(<<114>>)
IDF == Nm(<<105, 100>>)

Lits == [
  e   |-> <<>>,
  a   |-> <<97>>,
  u2  |-> <<195, 169, 120>>,                  \* é x
  u3  |-> <<226, 130, 172>>,                  \* euro
  u4  |-> <<32, 240, 159, 152, 128>>,         \* space, 4-byte
  br  |-> <<123, 125, 36>>,                   \* { } $
  qb  |-> <<34, 92, 10>>,                     \* quote, backslash, newline
  like |-> <<36, 123, 118, 125>>              \* the text `${v}` itself (written \${v}): not a slot
]
SlotEs == [
  var    |-> Vv,
  cat    |-> EBin("+", Vv, EStr(<<195, 169>>)),
  call   |-> ECall(IDF, <<EStr(<<226, 130, 172>>)>>),
  obj    |-> EProp(EObj(<<Pair(EStr(<<107>>), Vv)>>), <<107>>),
  lit    |-> EStr(<<113>>),
  nested |-> EIStr(<<Lit(<<60>>), SlotP(0, Vv), Lit(<<62>>)>>),
  nested2 |-> EIStr(<<Lit(<<60>>), SlotP(0, EStr(<<119>>)), Lit(<<62>>)>>),       \* same shape, another expression
  nested3 |-> EIStr(<<Lit(<<>>), SlotP(0, EIStr(<<Lit(<<91>>), SlotP(0, Vv), Lit(<<93>>)>>)), Lit(<<>>)>>),
  bslash |-> EBin("+", Vv, EStr(<<92>>)),                                         \* a literal ending in an escaped backslash
  quote  |-> EStr(<<34, 113, 34>>),                                               \* escaped quotes inside the slot
  braces |-> EStr(<<123, 125>>),                                                  \* balanced braces inside a literal
  dollar |-> EStr(<<36, 123, 125>>),                                              \* \$ and braces inside a literal
  nl     |-> EStr(<<10>>),
  idx    |-> EIndex(EList(<<Vv>>), I(0)),
  int    |-> I(7),
  list   |-> EList(<<Vv>>),
  null   |-> ENull
]
StringSlots == {"var", "cat", "call", "obj", "lit", "nested", "nested2", "nested3", "idx", "bslash", "quote",
                "braces", "dollar", "nl"}

\* the explicit concatenation the interpolated string must equal
RECURSIVE ConcatOf(_)
ConcatOf(parts) ==
    IF Len(parts) = 1 THEN EStr(parts[1].s)
    ELSE EBin("+", ConcatOf(SubSeq(parts, 1, Len(parts) - 1)),
              IF parts[Len(parts)].t = "lit" THEN EStr(parts[Len(parts)].s) ELSE parts[Len(parts)].e)

Parts(l0, s1, l1, s2, l2) ==
    <<Lit(Lits[l0])>>
    \o (IF s1 = "-" THEN <<>> ELSE <<SlotP(0, SlotEs[s1]), Lit(Lits[l1])>>)
    \o (IF s2 = "-" THEN <<>> ELSE <<SlotP(0, SlotEs[s2]), Lit(Lits[l2])>>)

Prelude == <<SDecl(Vv, EStr(<<118, 195, 188>>)),      \* "vü"
             SFn(<<105, 100>>, <<Nm(<<120>>)>>, FALSE, <<SReturn(Nm(<<120>>))>>)>>

StrPool == [
  empty |-> <<>>, ascii |-> <<97, 98, 99>>, two |-> <<195, 169>>, mixed |-> <<97, 195, 169, 226, 130, 172, 98>>,
  four  |-> <<240, 159, 152, 128, 33>>, nl |-> <<97, 10, 98>>
]

\* parameter tuples <<family, l0, s1, l1, s2, l2>>
C15Params ==
    { <<"interp", l0, "-", "e", "-", "e">> : l0 \in DOMAIN Lits }
    \cup { <<"interp", l0, s1, l1, "-", "e">> : l0 \in DOMAIN Lits, s1 \in DOMAIN SlotEs, l1 \in DOMAIN Lits }
    \cup (IF MaxSlots >= 2
          THEN { <<"interp", l0, s1, l1, s2, l2>> :
                   l0 \in {"e", "u2"}, s1 \in DOMAIN SlotEs, l1 \in {"e", "u3", "qb", "like"},
                   s2 \in StringSlots \cup {"int"}, l2 \in {"e", "a"} }
          ELSE {})
    \cup { <<"bytes", sx, "-", "-", "-", "-">> : sx \in DOMAIN StrPool }
    \cup { <<"scope", "-", "-", "-", "-", "-">> }
    \cup { <<"line1", s1, "-", "-", "-", "-">> : s1 \in {"var", "lit", "call"} }

Kv == Nm(<<107, 118>>)
Sv == Nm(<<115>>)
C15ProgOf(p) ==
    CASE p[1] = "interp" ->
            LET parts == Parts(p[2], p[3], p[4], p[5], p[6]) IN
            Prelude \o <<SDecl(Rr, EIStr(parts)), SPrint(Rr), SPrint(EBin("==", Rr, ConcatOf(parts))),
                         SPrint(ECall(ETProp(Rr, N_len), <<>>))>>
      [] p[1] = "bytes" ->
            <<SDecl(Sv, EStr(StrPool[p[2]])),
              SPrint(ECall(ETProp(Sv, N_len), <<>>)),
              \* every byte: s[i] == s[i:i+1], and `for` yields the same bytes in order
              SFor(Kv, Sv, <<SPrint(EBin("==", EIndex(Kv, I(1)), EIndex(Sv, EIndex(Kv, I(0))))),
                             SPrint(EBin("==", EIndex(Kv, I(1)),
                                         ERIndex(Sv, EIndex(Kv, I(0)), EBin("+", EIndex(Kv, I(0)), I(1)))))>>),
              SPrint(EBin("==", EBin("+", ERIndex(Sv, ENone, I(0)), ERIndex(Sv, I(0), ENone)), Sv)),
              SPrint(EBin("==", Sv, EBin("+", EStr(<<>>), Sv))),
              SPrint(Sv)>>
      \* the program starts with an interpolated string (line 1, column 1); interpolated strings nested in slots
      \* are positioned from 1:1 again: same coordinates, other texts
      [] p[1] = "line1" ->
            <<SExpr(EIStr(<<Lit(<<>>), SlotP(0, EStr(<<122>>)), Lit(<<>>)>>)),
              SDecl(Vv, EStr(<<118, 195, 188>>)),
              SFn(<<105, 100>>, <<Nm(<<120>>)>>, FALSE, <<SReturn(Nm(<<120>>))>>),
              SPrint(EIStr(<<Lit(<<>>), SlotP(0, EIStr(<<Lit(<<>>), SlotP(0, SlotEs[p[2]]), Lit(<<>>)>>)), Lit(<<>>)>>)),
              SPrint(EIStr(<<Lit(<<60>>), SlotP(0, EIStr(<<Lit(<<>>), SlotP(0, EStr(<<119>>)), Lit(<<33>>)>>)), Lit(<<62>>),
                             SlotP(0, EIStr(<<Lit(<<>>), SlotP(0, SlotEs[p[2]]), Lit(<<63>>)>>)), Lit(<<>>)>>)),
              SExpr(EIStr(<<Lit(<<>>), SlotP(0, Vv), Lit(<<>>)>>)),
              SPrint(EIStr(<<Lit(<<>>), SlotP(0, EStr(<<113>>)), Lit(<<>>)>>))>>
      \* a slot is evaluated in the current scope (the innermost binding wins)
      [] p[1] = "scope" ->
            <<SDecl(Vv, EStr(<<111>>)),
              SBlock(<<SDecl(Vv, EStr(<<105>>)), SPrint(EIStr(<<Lit(<<>>), SlotP(0, Vv), Lit(<<>>)>>))>>),
              SFn(<<102>>, <<Vv>>, FALSE, <<SReturn(EIStr(<<Lit(<<60>>), SlotP(0, Vv), Lit(<<62>>)>>))>>),
              SPrint(ECall(Nm(<<102>>), <<EStr(<<112>>)>>))>>

-----------------------------------------------------------------------------
Finished == status.k # "running"
AllString(p) == p[3] \in StringSlots \cup {"-"} /\ p[5] \in StringSlots \cup {"-"}
\* the interpolated string equals the concatenation of its pieces and slot values
InterpIsConcat ==
    (Finished /\ pi[1] = "interp") =>
        IF AllString(pi) THEN status.k = "done" /\ out[2] = T_true
        ELSE status.k = "failed" /\ status.diag.kind = "InterpolatedValueNotString" /\ out = <<>>
\* ->len() is the byte length; indexing, slicing and `for` agree byte by byte
BytesLaws ==
    (Finished /\ pi[1] = "bytes") =>
        LET n == Len(StrPool[pi[2]]) IN
        /\ status.k = "done" /\ out[1] = DecBytes(n) /\ Len(out) = 2 * n + 4
        /\ \A i \in 2 .. (2 * n + 1) : out[i] = T_true
        /\ out[2 * n + 2] = T_true /\ out[2 * n + 3] = T_true
C15Laws == InterpIsConcat /\ BytesLaws
=============================================================================
