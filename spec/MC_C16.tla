------------------------------- MODULE MC_C16 -------------------------------
(***************************************************************************)
(* C16 -- no implicit conversions.  The full finite matrix:                *)
(*   every binary operator x every ordered pair of the 8 value kinds, in   *)
(*   plain form and (for + - * / %) in the three op-assign forms;          *)
(*   every typed context x every kind.                                     *)
(* `InDomain` is the operand-type table written from the statement of the  *)
(* property; `TypeTable` (an ASSUME, evaluated once) states that the       *)
(* specification's operator semantics accept exactly that domain and       *)
(* otherwise produce a type diagnostic naming the operator and both type   *)
(* names in order.                                                         *)
(***************************************************************************)
EXTENDS SeedMC

A == <<97>>    \* a
Bn == <<98>>   \* b
Xs == <<120, 115>>
O == <<111>>
F == <<102>>
Pn == <<112>>  \* p
KindNames == <<"null", "bool", "int", "string", "list", "object", "func", "builtin">>
KIdx == 1 .. 13      \* the 8 kinds, then "", [], {}, 0, false (values that tempt a fast path)

\* one literal expression per kind (the user function `f` is declared first)
Ex(i) == CASE i = 1 -> ENull
           [] i = 2 -> EBool(TRUE)
           [] i = 3 -> EInt(3)
           [] i = 4 -> EStr(<<115>>)
           [] i = 5 -> EList(<<EInt(1)>>)
           [] i = 6 -> EObj(<<Pair(EStr(<<97>>), EInt(1))>>)
           [] i = 7 -> EVar(F)
           [] i = 8 -> EVar(N_print)
           [] i = 9 -> EStr(<<>>)
           [] i = 10 -> EList(<<>>)
           [] i = 11 -> EObj(<<>>)
           [] i = 12 -> EInt(0)
           [] i = 13 -> EBool(FALSE)

OpList == <<"+", "-", "*", "/", "%", "&&", "||", "==", "!=", "<", "<=", ">", ">=", "===", "!==">>
AssignOps == {"+", "-", "*", "/", "%"}
Forms == {"plain", "var", "elem", "prop", "key"}

Prelude == <<SFn(F, <<>>, FALSE, <<>>)>>

OpProg(op, i, j, form) ==
    Prelude \o
    CASE form = "plain" -> <<SDecl(EVar(A), Ex(i)), SDecl(EVar(Bn), Ex(j)),
                             SPrint(EBin(op, EVar(A), EVar(Bn)))>>
      \* operands written as literals (an interpreter may look at the shape of an operand)
      [] form = "litlit" -> <<SPrint(EBin(op, Ex(i), Ex(j)))>>
      [] form = "varlit" -> <<SDecl(EVar(A), Ex(i)), SPrint(EBin(op, EVar(A), Ex(j)))>>
      [] form = "litvar" -> <<SDecl(EVar(Bn), Ex(j)), SPrint(EBin(op, Ex(i), EVar(Bn)))>>
      [] form = "var"   -> <<SDecl(EVar(A), Ex(i)), SOpAssign(EVar(A), op, Ex(j)), SPrint(EVar(A))>>
      [] form = "elem"  -> <<SDecl(EVar(Xs), EList(<<Ex(i)>>)),
                             SOpAssign(EIndex(EVar(Xs), EInt(0)), op, Ex(j)), SPrint(EVar(Xs))>>
      [] form = "key"   -> <<SDecl(EVar(O), EObj(<<Pair(EStr(Pn), Ex(i))>>)),
                             SOpAssign(EIndex(EVar(O), EStr(Pn)), op, Ex(j)), SPrint(EVar(O))>>
      [] form = "prop"  -> <<SDecl(EVar(O), EObj(<<Pair(EStr(Pn), Ex(i))>>)),
                             SOpAssign(EProp(EVar(O), Pn), op, Ex(j)), SPrint(EVar(O))>>

Contexts == {"if", "while", "listidx", "stridx", "objidx", "rangestart", "rangeend", "ridxstart",
             "ridxend", "keyname", "slot", "listspread", "objspread", "callspread", "listdestruct",
             "objdestruct", "foriter", "callee", "dotrecv", "arrowrecv", "rangeassignrhs",
             "idxassign", "propassign",
             \* a condition evaluated again later; patterns that bind nothing; index / bound / key of a target
             "whilelater", "whilecontinue", "elseif", "emptyobjdecl", "emptyobjassign", "emptyobjparam",
             "emptyobjnested", "emptyobjfor", "emptylistdecl", "emptylistassign", "emptylistparam",
             "emptylistnested", "idxassignidx", "objassignkey", "opassignidx", "rangeassignstart",
             "rangeassignend", "destructkey", "restobj", "restlist",
             \* the other bound / index of the same construct is out of range
             "rangeassignendfar", "rangeassignstartfar", "ridxendfar", "ridxstartfar", "rangeendrev"}

L12 == EList(<<EInt(1), EInt(2)>>)
W1 == <<119, 49>>
W2 == <<119, 50>>
CtxProg(cx, i) ==
    Prelude \o <<SDecl(EVar(A), Ex(i))>> \o
    CASE cx = "if"         -> <<SIfElse(EVar(A), <<SPrint(EInt(1))>>, <<SPrint(EInt(2))>>)>>
      [] cx = "while"      -> <<SWhile(EVar(A), <<SPrint(EInt(1)), SBreak>>)>>
      [] cx = "listidx"    -> <<SPrint(EIndex(L12, EVar(A)))>>
      [] cx = "stridx"     -> <<SPrint(EIndex(EStr(<<97, 98, 99, 100>>), EVar(A)))>>
      [] cx = "objidx"     -> <<SPrint(EIndex(EObj(<<Pair(EStr(<<115>>), EInt(1))>>), EVar(A)))>>
      [] cx = "rangestart" -> <<SPrint(ERange(EVar(A), EInt(5)))>>
      [] cx = "rangeend"   -> <<SPrint(ERange(EInt(1), EVar(A)))>>
      [] cx = "ridxstart"  -> <<SPrint(ERIndex(EStr(<<97, 98, 99, 100>>), EVar(A), ENone))>>
      [] cx = "ridxend"    -> <<SPrint(ERIndex(EStr(<<97, 98, 99, 100>>), ENone, EVar(A)))>>
      [] cx = "keyname"    -> <<SPrint(EObj(<<Pair(EVar(A), EInt(1))>>))>>
      [] cx = "slot"       -> <<SPrint(EIStr(<<Lit(<<120>>), SlotP(0, EVar(A)), Lit(<<121>>)>>))>>
      [] cx = "listspread" -> <<SPrint(EListOf(<<Item(EInt(0)), Spread(EVar(A))>>))>>
      [] cx = "objspread"  -> <<SPrint(EObj(<<Pair(EStr(<<122>>), EInt(0)), PSpread(EVar(A))>>))>>
      [] cx = "callspread" -> <<SFn(<<103>>, <<EVar(<<117>>)>>, TRUE, <<SPrint(EVar(<<117>>))>>),
                               SExpr(ECallOf(EVar(<<103>>), <<Spread(EVar(A))>>))>>
      [] cx = "listdestruct" -> <<SDecl(EPat(<<EVar(<<117>>)>>), EVar(A)), SPrint(EVar(<<117>>))>>
      [] cx = "objdestruct"  -> <<SDecl(EObj(<<Short(EVar(A))>>), EVar(A)), SPrint(EInt(1))>>
      [] cx = "foriter"    -> <<SFor(EVar(<<117>>), EVar(A), <<SPrint(EVar(<<117>>))>>)>>
      [] cx = "callee"     -> <<SPrint(ECall(EVar(A), <<>>))>>
      [] cx = "dotrecv"    -> <<SPrint(EProp(EVar(A), <<97>>))>>
      [] cx = "arrowrecv"  -> <<SPrint(ECall(ETProp(EVar(A), N_type), <<>>))>>
      [] cx = "rangeassignrhs" -> <<SDecl(EVar(Xs), L12), SAssign(ERIndex(EVar(Xs), EInt(0), EInt(1)), EVar(A)),
                                   SPrint(EVar(Xs))>>
      [] cx = "idxassign"  -> <<SAssign(EIndex(EVar(A), EInt(0)), EInt(9)), SPrint(EVar(A))>>
      [] cx = "propassign" -> <<SAssign(EProp(EVar(A), <<97>>), EInt(9)), SPrint(EVar(A))>>
      [] cx = "whilelater" -> <<SDecl(EVar(W1), EBool(TRUE)), SDecl(EVar(W2), EInt(0)),
                                SWhile(EVar(W1), <<SPrint(EInt(1)), SOpAssign(EVar(W2), "+", EInt(1)),
                                                   SIf(EBin("==", EVar(W2), EInt(2)), <<SAssign(EVar(W1), EVar(A))>>)>>),
                                SPrint(EInt(2))>>
      [] cx = "whilecontinue" -> <<SDecl(EVar(W1), EBool(TRUE)),
                                   SWhile(EVar(W1), <<SPrint(EInt(1)), SAssign(EVar(W1), EVar(A)), SContinue>>),
                                   SPrint(EInt(2))>>
      [] cx = "elseif"     -> <<SIfOf(<<Branch(EBool(FALSE), <<SPrint(EInt(0))>>), Branch(EVar(A), <<SPrint(EInt(1))>>)>>,
                                      Else(<<SPrint(EInt(2))>>))>>
      [] cx = "emptyobjdecl"   -> <<SDecl(EObj(<<>>), EVar(A)), SPrint(EInt(1))>>
      [] cx = "emptyobjassign" -> <<SAssign(EObj(<<>>), EVar(A)), SPrint(EInt(1))>>
      [] cx = "emptyobjparam"  -> <<SFn(<<103>>, <<EVar(<<117>>), EObj(<<>>)>>, FALSE, <<SPrint(EVar(<<117>>))>>),
                                    SExpr(ECall(EVar(<<103>>), <<EInt(1), EVar(A)>>))>>
      [] cx = "emptyobjnested" -> <<SDecl(EPat(<<EObj(<<>>), EVar(<<117>>)>>), EList(<<EVar(A), EInt(1)>>)), SPrint(EVar(<<117>>))>>
      [] cx = "emptyobjfor"    -> <<SFor(EPat(<<EVar(<<117>>), EObj(<<>>)>>), EList(<<EVar(A)>>), <<SPrint(EVar(<<117>>))>>)>>
      [] cx = "emptylistdecl"   -> <<SDecl(EPat(<<>>), EVar(A)), SPrint(EInt(1))>>
      [] cx = "emptylistassign" -> <<SAssign(EPat(<<>>), EVar(A)), SPrint(EInt(1))>>
      [] cx = "emptylistparam"  -> <<SFn(<<103>>, <<EPat(<<>>), EVar(<<117>>)>>, FALSE, <<SPrint(EVar(<<117>>))>>),
                                     SExpr(ECall(EVar(<<103>>), <<EVar(A), EInt(1)>>))>>
      [] cx = "emptylistnested" -> <<SDecl(EObj(<<Pair(EStr(<<107>>), EPat(<<>>))>>), EObj(<<Pair(EStr(<<107>>), EVar(A))>>)),
                                     SPrint(EInt(1))>>
      [] cx = "idxassignidx"   -> <<SDecl(EVar(Xs), L12), SAssign(EIndex(EVar(Xs), EVar(A)), EInt(9)), SPrint(EVar(Xs))>>
      [] cx = "objassignkey"   -> <<SDecl(EVar(O), EObj(<<>>)), SAssign(EIndex(EVar(O), EVar(A)), EInt(9)), SPrint(EVar(O))>>
      [] cx = "opassignidx"    -> <<SDecl(EVar(Xs), L12), SOpAssign(EIndex(EVar(Xs), EVar(A)), "+", EInt(9)), SPrint(EVar(Xs))>>
      [] cx = "rangeassignstart" -> <<SDecl(EVar(Xs), L12), SAssign(ERIndex(EVar(Xs), EVar(A), ENone), EList(<<EInt(7), EInt(8)>>)),
                                      SPrint(EVar(Xs))>>
      [] cx = "rangeassignend" -> <<SDecl(EVar(Xs), L12), SAssign(ERIndex(EVar(Xs), ENone, EVar(A)), EList(<<EInt(7), EInt(8)>>)),
                                    SPrint(EVar(Xs))>>
      [] cx = "rangeassignendfar" -> <<SDecl(EVar(Xs), L12), SAssign(ERIndex(EVar(Xs), EInt(5), EVar(A)), EList(<<EInt(7)>>)),
                                       SPrint(EVar(Xs))>>
      [] cx = "rangeassignstartfar" -> <<SDecl(EVar(Xs), L12), SAssign(ERIndex(EVar(Xs), EVar(A), EInt(9)), EList(<<EInt(7)>>)),
                                         SPrint(EVar(Xs))>>
      [] cx = "ridxendfar"     -> <<SPrint(ERIndex(L12, EInt(5), EVar(A)))>>
      [] cx = "ridxstartfar"   -> <<SPrint(ERIndex(L12, EVar(A), EInt(9)))>>
      [] cx = "rangeendrev"    -> <<SPrint(ERange(EInt(5), EVar(A))), SPrint(ERange(EVar(A), EInt(-5)))>>
      [] cx = "destructkey"    -> <<SDecl(EObj(<<Pair(EVar(A), EVar(<<117>>))>>), EObj(<<Pair(EStr(<<115>>), EInt(1))>>)),
                                    SPrint(EVar(<<117>>))>>
      [] cx = "restobj"        -> <<SDecl(EObj(<<PCollect(EVar(<<117>>))>>), EVar(A)), SPrint(EVar(<<117>>))>>
      [] cx = "restlist"       -> <<SDecl(EPatRest(<<EVar(<<117>>)>>), EVar(A)), SPrint(EVar(<<117>>))>>

\* == / != reaching a pair of kinds *inside* containers: never a silent boolean for a mismatch
EqNest(op, i, j, how) ==
    Prelude \o
    CASE how = "list" -> <<SPrint(EBin(op, EList(<<EInt(1), Ex(i)>>), EList(<<EInt(1), Ex(j)>>)))>>
      [] how = "obj"  -> <<SPrint(EBin(op, EObj(<<Pair(EStr(<<107>>), Ex(i))>>), EObj(<<Pair(EStr(<<107>>), Ex(j))>>)))>>
      \* the same container twice on one side (an equality routine that remembers what it has seen)
      [] how = "sharedl" -> <<SDecl(EVar(A), EList(<<Ex(i)>>)),
                              SPrint(EBin(op, EList(<<EVar(A), EVar(A)>>), EList(<<EList(<<Ex(i)>>), EList(<<Ex(j)>>)>>)))>>
      [] how = "sharedr" -> <<SDecl(EVar(A), EList(<<Ex(j)>>)),
                              SPrint(EBin(op, EList(<<EList(<<Ex(j)>>), EList(<<Ex(i)>>)>>), EList(<<EVar(A), EVar(A)>>)))>>
      [] how = "sharedo" -> <<SDecl(EVar(A), EObj(<<Pair(EStr(<<107>>), Ex(i))>>)),
                              SPrint(EBin(op, EObj(<<Pair(EStr(<<97>>), EVar(A)), Pair(EStr(<<98>>), EVar(A))>>),
                                              EObj(<<Pair(EStr(<<97>>), EObj(<<Pair(EStr(<<107>>), Ex(i))>>)),
                                                     Pair(EStr(<<98>>), EObj(<<Pair(EStr(<<107>>), Ex(j))>>))>>)))>>
      [] how = "objkeys" -> <<SPrint(EBin(op, EObj(<<Pair(EStr(<<97>>), Ex(i)), Pair(EStr(<<98>>), EInt(1))>>),
                                              EObj(<<Pair(EStr(<<97>>), Ex(j)), Pair(EStr(<<99>>), EInt(1))>>)))>>
      [] how = "deep" -> <<SDecl(EVar(A), EList(<<EObj(<<Pair(EStr(<<107>>), EList(<<Ex(i)>>))>>)>>)),
                           SDecl(EVar(Bn), EList(<<EObj(<<Pair(EStr(<<107>>), EList(<<Ex(j)>>))>>)>>)),
                           SPrint(EBin(op, EVar(A), EVar(Bn)))>>

\* parameter tuples <<family, op-or-context, i, j, form>>
C16Params ==
    { <<"eqnest", op, i, j, how>> : op \in {"==", "!="}, i \in KIdx, j \in KIdx, how \in {"list", "obj", "deep", "sharedl", "sharedr", "sharedo", "objkeys"} }
    \cup
    { <<"op", OpList[o], i, j, "plain">> : o \in 1 .. Len(OpList), i \in KIdx, j \in KIdx }
    \cup { <<"op", op, i, j, form>> : op \in AssignOps, i \in KIdx, j \in KIdx, form \in Forms \ {"plain"} }
    \cup { <<"op", OpList[o], i, j, form>> : o \in 1 .. Len(OpList), i \in KIdx, j \in KIdx, form \in {"litlit", "varlit", "litvar"} }
    \cup { <<"ctx", cx, i, 0, "-">> : cx \in Contexts, i \in KIdx }

\* the same matrix with the operation inside a function (prefix and stack trace)
C16ParamsThorough ==
    C16Params \cup { <<"opfn", OpList[o], i, j, "plain">> : o \in 1 .. Len(OpList), i \in KIdx, j \in KIdx }
              \cup { <<"ctxfn", cx, i, 0, "-">> : cx \in Contexts, i \in KIdx }

G == <<103, 103>>
InFn(body) == <<SFn(G, <<>>, FALSE, body), SExpr(ECall(EVar(G), <<>>))>>

C16ProgOf(p) ==
    CASE p[1] = "op"    -> OpProg(p[2], p[3], p[4], p[5])
      [] p[1] = "eqnest" -> EqNest(p[2], p[3], p[4], p[5])
      [] p[1] = "ctx"   -> CtxProg(p[2], p[3])
      [] p[1] = "opfn"  -> InFn(OpProg(p[2], p[3], p[4], p[5]))
      [] p[1] = "ctxfn" -> InFn(CtxProg(p[2], p[3]))

-----------------------------------------------------------------------------
(* The operand-type table of the property statement. *)
InDomain(op, ka, kb) ==
    CASE op = "+" -> ka = kb /\ ka \in {"int", "string", "list"}
      [] op \in {"-", "*", "/", "%", "<", "<=", ">", ">="} -> ka = "int" /\ kb = "int"
      [] op \in {"&&", "||"} -> ka = "bool" /\ kb = "bool"
      [] op \in {"==", "!="} -> ka = kb /\ ka \notin {"func", "builtin"}
      [] op \in {"===", "!=="} -> ka = kb /\ ka \in {"list", "object", "func"}

\* exemplar values over a small constant heap
ExHeap == <<CList(<<Slot(VInt(1))>>), CObj((<<97>> :> Slot(VInt(1)))),
            CFn(SomeName(F), <<>>, FALSE, <<>>, <<1>>), CList(<<>>), CObj(<<>>)>>
ExVal(i) == CASE i = 1 -> VNull [] i = 2 -> VBool(TRUE) [] i = 3 -> VInt(3) [] i = 4 -> VStr(<<115>>)
              [] i = 5 -> VList(1) [] i = 6 -> VObj(2) [] i = 7 -> VFn(3) [] i = 8 -> VBuiltin(N_print)
              [] i = 9 -> VStr(<<>>) [] i = 10 -> VList(4) [] i = 11 -> VObj(5) [] i = 12 -> VInt(0)
              [] i = 13 -> VBool(FALSE)

TypeNamesOk == \A i \in KIdx : TypeName(ExVal(i)) \in {"null", "bool", "int", "string", "list", "object", "func"}

TypeTable ==
    \A o \in 1 .. Len(OpList), i \in KIdx, j \in KIdx :
        LET op == OpList[o]
            a == ExVal(i)
            b == ExVal(j)
            r == ApplyOp(op, a, b, ExHeap) IN
        IF InDomain(op, a.k, b.k)
        THEN r.r \in {"val", "alloc"} \/ (r.r = "err" /\ r.kind = "IntOverflow")
        ELSE /\ r.r = "err"
             /\ r.kind \in {"InvalidOpTypes", "InvalidEqOpTypes"}
             \* the message names the operator and both type names, in order
             /\ r.msg[2] = PS(op) /\ r.msg[4] = PS(TypeName(a)) /\ r.msg[6] = PS(TypeName(b))

\* inside containers too: a mismatch (or two functions) is an error, equal kinds of data a boolean
EqNestRule ==
    (status.k # "running" /\ pi[1] = "eqnest") =>
        IF InDomain("==", ExVal(pi[3]).k, ExVal(pi[4]).k) THEN status.k = "done"
        ELSE status.k = "failed" /\ status.diag.kind = "InvalidEqOpTypes"
\* contexts that take exactly one kind: everything else is a reported error there, also when the value only
\* arrives on a later evaluation and also when the pattern binds nothing
OnlyKind(cx) ==
    CASE cx \in {"if", "while", "whilelater", "whilecontinue", "elseif"} -> {"bool"}
      [] cx \in {"emptyobjdecl", "emptyobjassign", "emptyobjparam", "emptyobjnested", "emptyobjfor", "objdestruct", "restobj"} -> {"object"}
      [] cx \in {"emptylistdecl", "emptylistassign", "emptylistparam", "emptylistnested", "listdestruct", "restlist"} -> {"list"}
      [] cx \in {"idxassignidx", "opassignidx", "rangeassignstart", "rangeassignend", "listidx", "stridx",
                 "rangeassignendfar", "rangeassignstartfar", "ridxendfar", "ridxstartfar", "rangeendrev"} -> {"int"}
      [] cx \in {"objassignkey", "objidx", "keyname", "slot", "destructkey"} -> {"string"}
      [] OTHER -> {}
CtxRule ==
    (status.k # "running" /\ pi[1] \in {"ctx", "ctxfn"} /\ OnlyKind(pi[2]) # {}) =>
        (ExVal(pi[3]).k \notin OnlyKind(pi[2]) => status.k = "failed")
ASSUME TypeNamesOk
ASSUME TypeTable
=============================================================================
