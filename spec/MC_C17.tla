------------------------------- MODULE MC_C17 -------------------------------
(***************************************************************************)
(* C17 -- a failure is one well-formed located diagnostic after the output *)
(* so far.  Every error kind of the evaluator, raised                      *)
(*   * by an expression placed at every hosting syntactic position, or by  *)
(*     a statement,                                                        *)
(*   * at call depth 0..MaxDepth through named functions, an anonymous     *)
(*     function held in a variable, a method, inside a loop / bare block,  *)
(*   * after 0..2 completed prints.                                        *)
(* The invariants relate the diagnostic to the parameters of the case:     *)
(* stdout is exactly the completed prints, the stack trace has one line    *)
(* per active call, innermost first, ending at <root>, each naming the     *)
(* function that contains the call; the prefix names the innermost one.    *)
(***************************************************************************)
EXTENDS SeedMC

CONSTANTS MaxDepth

I(n) == EInt(n)
Nm(s) == EVar(s)
Xs == Nm(<<120, 115>>)
Vv == Nm(<<118>>)
F0 == Nm(<<102, 48>>)
F1R == Nm(<<102, 114>>)
IDF == Nm(<<105, 100, 102>>)
Eacute0 == EIndex(EStr(<<195, 169>>), I(0))          \* one byte of a 2-byte character
KA == <<97>>

ErrExprs == [
  Undefined        |-> Nm(<<110, 111, 112, 101>>),
  UndefinedShorthand |-> EObj(<<Pair(EStr(KA), I(1)), Short(Vv), Short(Nm(<<110, 111, 112, 101>>)), Short(Nm(<<122, 122>>))>>),
  InvalidOpTypes   |-> EBin("+", I(1), EStr(<<115>>)),
  InvalidEqOpTypes |-> EBin("==", EList(<<I(1), EList(<<I(2)>>)>>), EList(<<I(1), EList(<<ENull>>)>>)),
  IntOverflow      |-> EBin("/", I(1), I(0)),
  ModZero          |-> EBin("%", I(7), I(0)),
  CannotCallNonFunc |-> ECall(I(1), <<>>),
  ArgNumMismatch   |-> ECall(F0, <<I(1)>>),
  TooFewArgs       |-> ECall(F1R, <<>>),
  BuiltinArgs      |-> ECall(Nm(N_print), <<>>),
  Dev              |-> ECall(EProp(EObj(<<Pair(EStr(<<112>>), Nm(N_print))>>), <<112>>), <<I(1)>>),
  ValueNotIndexable |-> EIndex(I(1), I(0)),
  OutOfStringBounds |-> EIndex(EStr(<<97>>), I(5)),
  OutOfListBounds  |-> EIndex(Xs, I(5)),
  NegativeIndex    |-> EIndex(Xs, I(-1)),
  IndexType        |-> EIndex(Xs, EStr(<<97>>)),
  PropertyType     |-> EIndex(EObj(<<>>), I(1)),
  RangeOutOfStringBounds |-> ERIndex(EStr(<<97, 98, 99>>), I(2), I(9)),
  RangeOutOfListBounds |-> ERIndex(Xs, I(0), I(5)),
  RangeBoundType   |-> ERIndex(Xs, ENull, ENone),
  ValueNotRangeIndexable |-> ERIndex(I(1), I(0), I(1)),
  PropNotFound     |-> EProp(EObj(<<>>), KA),
  PropNotFoundIdx  |-> EIndex(EObj(<<>>), EStr(KA)),
  PropAccessOnNonObject |-> EProp(I(1), KA),
  TypeFunctionOnNull |-> ETProp(ENull, N_type),
  TypeFunctionNotFound |-> ETProp(I(1), N_len),
  ListCollectOutside |-> EPatRest(<<Vv>>),
  ObjectCollectOutside |-> EObj(<<PCollect(Vv)>>),
  SpreadNonListInList |-> EListOf(<<Spread(I(1))>>),
  SpreadNonObjectInObject |-> EObj(<<PSpread(I(1))>>),
  ShorthandNotVar  |-> EObj(<<Short(I(1))>>),
  PropertyNameType |-> EObj(<<Pair(I(1), I(2))>>),
  RangeStartType   |-> ERange(EStr(<<97>>), I(2)),
  RangeEndType     |-> ERange(I(1), EStr(<<98>>)),
  InterpNotString  |-> EIStr(<<Lit(<<120>>), SlotP(0, I(1)), Lit(<<>>)>>),
  InterpInner      |-> EIStr(<<Lit(<<>>), SlotP(0, Nm(<<110, 111, 112, 101>>)), Lit(<<>>)>>),
  PrintUtf8        |-> ECall(Nm(N_print), <<Eacute0>>),
  ThisUtf8         |-> ECall(ETProp(Eacute0, N_len), <<>>),
  KeyUtf8          |-> EObj(<<Pair(Eacute0, I(1))>>),
  SpreadArg        |-> ECallOf(F0, <<Spread(I(1))>>)
]

Hosts == {"stmt", "declrhs", "assignrhs", "oprhs", "idxtarget", "ifcond", "whilecond", "foriter",
          "return", "arg", "callee", "index", "rangebound", "listitem", "spread", "objkey", "objvalue",
          "slot", "operand", "proprecv", "elifcond", "printarg",
          \* every remaining child-expression position of every node kind
          "loperand", "indexsrc", "rindexsrc", "rindexstart", "rangestart", "rangeend", "objspread", "callspread",
          "arrowrecv", "propassignrecv", "idxassignrecv", "rangeassignrecv", "rangeassignstart", "rangeassignend",
          "destructkey", "fortargetidx", "opassigntargetidx", "declpatidx", "nestedslot", "fnbodyexpr", "methodarg",
          "elsebody", "forbody", "whilebody", "rangeassignrhs", "destructrhs",
          \* after literals with multi-byte text on the same line
          "afterstr", "afteristr"}
Q == Nm(<<113>>)
Host(h, e) ==
    CASE h = "stmt"       -> <<SExpr(e)>>
      [] h = "declrhs"    -> <<SDecl(Q, e)>>
      [] h = "afterstr"   -> <<SDecl(Q, EList(<<EStr(<<97, 195, 169, 226, 130, 172, 32, 240, 159, 152, 128, 122>>), e>>))>>
      [] h = "afteristr"  -> <<SDecl(Q, EBin("+", EIStr(<<Lit(<<103, 114, 195, 182, 195, 159, 101, 58>>), SlotP(0, EStr(<<120, 195, 169>>)),
                                                          Lit(<<32, 226, 130, 172>>)>>), e))>>
      [] h = "assignrhs"  -> <<SAssign(Vv, e)>>
      [] h = "oprhs"      -> <<SOpAssign(Vv, "+", e)>>
      [] h = "idxtarget"  -> <<SAssign(EIndex(Xs, e), I(1))>>
      [] h = "ifcond"     -> <<SIf(e, <<SPrint(I(77))>>)>>
      [] h = "elifcond"   -> <<SIfOf(<<Branch(EBool(FALSE), <<>>), Branch(e, <<SPrint(I(77))>>)>>, NoElse)>>
      [] h = "whilecond"  -> <<SWhile(e, <<SBreak>>)>>
      [] h = "foriter"    -> <<SFor(Q, e, <<SPrint(I(77))>>)>>
      [] h = "return"     -> <<SReturn(e)>>
      [] h = "arg"        -> <<SExpr(ECall(IDF, <<e>>))>>
      [] h = "callee"     -> <<SExpr(ECall(e, <<>>))>>
      [] h = "index"      -> <<SExpr(EIndex(Xs, e))>>
      [] h = "rangebound" -> <<SExpr(ERIndex(Xs, I(0), e))>>
      [] h = "listitem"   -> <<SExpr(EList(<<I(1), e>>))>>
      [] h = "spread"     -> <<SExpr(EListOf(<<Spread(e)>>))>>
      [] h = "objkey"     -> <<SExpr(EObj(<<Pair(e, I(1))>>))>>
      [] h = "objvalue"   -> <<SExpr(EObj(<<Pair(EStr(KA), e)>>))>>
      [] h = "slot"       -> <<SExpr(EIStr(<<Lit(<<97>>), SlotP(0, e), Lit(<<98>>)>>))>>
      [] h = "operand"    -> <<SExpr(EBin("+", I(1), e))>>
      [] h = "proprecv"   -> <<SExpr(EProp(e, KA))>>
      [] h = "printarg"   -> <<SPrint(e)>>
      [] h = "loperand"   -> <<SExpr(EBin("-", e, I(1)))>>
      [] h = "indexsrc"   -> <<SExpr(EIndex(e, I(0)))>>
      [] h = "rindexsrc"  -> <<SExpr(ERIndex(e, I(0), I(1)))>>
      [] h = "rindexstart" -> <<SExpr(ERIndex(Xs, e, ENone))>>
      [] h = "rangestart" -> <<SExpr(ERange(e, I(2)))>>
      [] h = "rangeend"   -> <<SExpr(ERange(I(0), e))>>
      [] h = "objspread"  -> <<SExpr(EObj(<<Pair(EStr(KA), I(1)), PSpread(e)>>))>>
      [] h = "callspread" -> <<SExpr(ECallOf(IDF, <<Spread(e)>>))>>
      [] h = "arrowrecv"  -> <<SExpr(ECall(ETProp(e, N_type), <<>>))>>
      [] h = "propassignrecv" -> <<SAssign(EProp(e, KA), I(1))>>
      [] h = "idxassignrecv" -> <<SAssign(EIndex(e, I(0)), I(1))>>
      [] h = "rangeassignrecv" -> <<SAssign(ERIndex(e, I(0), I(1)), EList(<<I(1)>>))>>
      [] h = "rangeassignstart" -> <<SAssign(ERIndex(Xs, e, I(1)), EList(<<I(1)>>))>>
      [] h = "rangeassignend" -> <<SAssign(ERIndex(Xs, I(0), e), EList(<<I(1)>>))>>
      [] h = "rangeassignrhs" -> <<SAssign(ERIndex(Xs, I(0), I(1)), e)>>
      [] h = "destructkey" -> <<SDecl(EObj(<<Pair(e, Q)>>), EObj(<<Pair(EStr(KA), I(1))>>))>>
      [] h = "destructrhs" -> <<SDecl(EPat(<<Q>>), e)>>
      [] h = "fortargetidx" -> <<SFor(EPat(<<EVar(N_us), EIndex(Xs, e)>>), EList(<<I(5)>>), <<SPrint(I(77))>>)>>
      [] h = "opassigntargetidx" -> <<SOpAssign(EIndex(Xs, e), "+", I(1))>>
      [] h = "declpatidx" -> <<SAssign(EPat(<<Vv, EIndex(Xs, e)>>), EList(<<I(1), I(2)>>))>>
      [] h = "nestedslot" -> <<SExpr(EIStr(<<Lit(<<>>), SlotP(0, EIStr(<<Lit(<<120>>), SlotP(0, e), Lit(<<>>)>>)), Lit(<<>>)>>))>>
      [] h = "fnbodyexpr" -> <<SExpr(ECall(EFunc(<<>>, FALSE, <<SExpr(e)>>), <<>>))>>
      [] h = "methodarg" -> <<SExpr(ECall(EProp(EObj(<<Pair(EStr(<<109>>), IDF)>>), <<109>>), <<e>>))>>
      [] h = "elsebody"  -> <<SIfElse(EBool(FALSE), <<SPrint(I(77))>>, <<SExpr(e)>>)>>
      [] h = "forbody"   -> <<SFor(Q, EList(<<I(1), I(2)>>), <<SExpr(e)>>)>>
      [] h = "whilebody" -> <<SWhile(EBool(TRUE), <<SExpr(e)>>)>>

ErrStmts == [
  AlreadyInScope   |-> <<SDecl(Q, I(1)), SDecl(Q, I(2))>>,
  AlreadyInScopeFn |-> <<SDecl(Q, I(1)), SFn(<<113>>, <<>>, FALSE, <<>>)>>,
  AlreadyInBinding |-> <<SDecl(EPat(<<Q, Q>>), EList(<<I(1), I(2)>>))>>,
  InvalidBindTarget |-> <<SDecl(I(1), I(1))>>,
  UndefinedAssign  |-> <<SAssign(Nm(<<110, 111>>), I(1))>>,
  UndefinedOpAssign |-> <<SOpAssign(Nm(<<110, 111>>), "+", I(1))>>,
  OpAssignTypes    |-> <<SOpAssign(Vv, "+", EStr(<<115>>))>>,
  OpAssignTypesElem |-> <<SOpAssign(EIndex(Xs, I(1)), "+", EStr(<<115>>))>>,
  OpAssignTypesProp |-> <<SDecl(Q, EObj(<<Pair(EStr(KA), I(1))>>)), SOpAssign(EProp(Q, KA), "-", EStr(<<115>>))>>,
  OpAssignTypesIdx  |-> <<SDecl(Q, EObj(<<Pair(EStr(KA), I(1))>>)), SOpAssign(EIndex(Q, EStr(KA)), "*", ENull)>>,
  OpAssignZeroVar   |-> <<SOpAssign(Vv, "/", I(0))>>,
  OpAssignZeroElem  |-> <<SOpAssign(EIndex(Xs, I(0)), "%", I(0))>>,
  OpAssignZeroProp  |-> <<SDecl(Q, EObj(<<Pair(EStr(KA), I(1))>>)), SOpAssign(EProp(Q, KA), "/", I(0))>>,
  ListDestructureOnNonList |-> <<SDecl(EPat(<<Q>>), I(1))>>,
  ListDestructureItemMismatch |-> <<SDecl(EPat(<<Q>>), EList(<<I(1), I(2)>>))>>,
  ListCollectTooFew |-> <<SDecl(EPatRest(<<Q, Nm(<<114>>), Nm(<<115>>)>>), EList(<<I(1)>>))>>,
  SpreadInListDestructure |-> <<SDecl(EListOf(<<Spread(Q)>>), EList(<<I(1)>>))>>,
  ObjectDestructureOnNonObject |-> <<SDecl(EObj(<<Short(Q)>>), I(1))>>,
  ObjectPropNotFound |-> <<SDecl(EObj(<<Short(Q)>>), EObj(<<>>))>>,
  SpreadOnObjectDestructure |-> <<SDecl(EObj(<<PSpread(Q)>>), EObj(<<>>))>>,
  ObjectCollectIsNotLast |-> <<SDecl(EObj(<<PCollect(Q), Short(Nm(<<114>>))>>), EObj(<<>>))>>,
  OpOnRangeIndex   |-> <<SOpAssign(ERIndex(Xs, I(0), I(1)), "+", EList(<<I(1)>>))>>,
  OpOnListDestructure |-> <<SOpAssign(EPat(<<Vv>>), "+", EList(<<I(1)>>))>>,
  OpOnObjectDestructure |-> <<SOpAssign(EObj(<<Short(Vv)>>), "+", EObj(<<>>))>>,
  OpOnUndefinedIndex |-> <<SDecl(Q, EObj(<<>>)), SOpAssign(EIndex(Q, EStr(KA)), "+", I(1))>>,
  OpOnUndefinedProp |-> <<SDecl(Q, EObj(<<>>)), SOpAssign(EProp(Q, KA), "+", I(1))>>,
  ValueNotIndexAssignable |-> <<SAssign(EIndex(I(1), I(0)), I(1))>>,
  ValueNotRangeIndexAssignable |-> <<SAssign(ERIndex(I(1), I(0), I(1)), EList(<<>>))>>,
  RangeIndexAssignOnNonIndexable |-> <<SAssign(ERIndex(Xs, I(0), I(1)), I(1))>>,
  RangeStartOutOfListBounds |-> <<SAssign(ERIndex(Xs, I(5), ENone), EList(<<>>))>>,
  RangeStartNotBeforeEnd |-> <<SAssign(ERIndex(Xs, I(1), I(1)), EList(<<>>))>>,
  RangeEndOutOfListBounds |-> <<SAssign(ERIndex(Xs, I(0), I(7)), EList(<<>>))>>,
  RangeIndexItemMismatch |-> <<SAssign(ERIndex(Xs, I(0), I(2)), EList(<<I(1)>>))>>,
  OutOfListBoundsAssign |-> <<SAssign(EIndex(Xs, I(9)), I(1))>>,
  AssignToTypeProp |-> <<SAssign(ETProp(I(1), N_type), I(2))>>,
  PropAssignOnNonObject |-> <<SAssign(EProp(I(1), KA), I(2))>>,
  BreakOutsideLoop |-> <<SBreak>>,
  ContinueOutsideLoop |-> <<SContinue>>,
  ForIterNotIterable |-> <<SFor(Q, I(1), <<>>)>>,
  DupParamName     |-> <<SFn(<<113>>, <<Nm(<<97>>), Nm(<<97>>)>>, FALSE, <<>>)>>,
  PropSpreadInParamList |-> <<SFn(<<113>>, <<EObj(<<PSpread(Nm(<<97>>))>>)>>, FALSE, <<>>)>>,
  ItemSpreadInParamList |-> <<SFn(<<113>>, <<EListOf(<<Spread(Nm(<<97>>))>>)>>, FALSE, <<>>)>>,
  ParamBindError   |-> <<SDecl(Q, EFunc(<<EPat(<<Nm(<<97>>)>>)>>, FALSE, <<>>)), SExpr(ECall(Q, <<I(1)>>))>>,
  \* a long container whose last item cannot be rendered: nothing of it may reach stdout
  PrintLongCyclic  |-> <<SDecl(Q, EBin("+", ERange(I(0), I(39)), EList(<<I(0)>>))), SAssign(EIndex(Q, I(39)), Q), SPrint(Q)>>,
  PrintLongUtf8    |-> <<SDecl(Q, EBin("+", ERange(I(0), I(33)), EList(<<Eacute0>>))), SPrint(Q)>>,
  PrintNestedUtf8  |-> <<SPrint(EObj(<<Pair(EStr(KA), I(1)), Pair(EStr(<<98>>), EList(<<I(2), Eacute0>>))>>))>>,
  \* a parameter called `this` collides with the receiver binding of a method call
  ThisParam        |-> <<SDecl(Q, EObj(<<Pair(EStr(<<109>>), EFunc(<<EVar(N_this)>>, FALSE, <<>>))>>)),
                         SExpr(ECall(EProp(Q, <<109>>), <<I(1)>>))>>,
  ThisRedeclared   |-> <<SDecl(Q, EObj(<<Pair(EStr(<<109>>), EFunc(<<>>, FALSE, <<SDecl(EVar(N_this), I(1))>>))>>)),
                         SExpr(ECall(EProp(Q, <<109>>), <<>>))>>,
  PrintCyclic      |-> <<SDecl(Q, EList(<<I(1)>>)), SAssign(EIndex(Q, I(0)), Q), SPrint(Q)>>,
  \* the same literal text at two places: the first evaluation succeeds, the second fails in the slot
  SameSlotTwice    |-> <<SDecl(Q, EStr(<<97>>)), SPrint(EIStr(<<Lit(<<60>>), SlotP(0, EBin("+", Q, EStr(<<33>>))), Lit(<<62>>)>>)),
                         SAssign(Q, I(1)),
                         SDecl(Nm(<<122, 122, 122>>), EIStr(<<Lit(<<60>>), SlotP(0, EBin("+", Q, EStr(<<33>>))), Lit(<<62>>)>>))>>,
  SameSlotTwiceFn  |-> <<SFn(<<115, 104>>, <<Q>>, FALSE, <<SReturn(EIStr(<<Lit(<<60>>), SlotP(0, EBin("+", Q, EStr(<<33>>))), Lit(<<62>>)>>))>>),
                         SPrint(ECall(Nm(<<115, 104>>), <<EStr(<<97>>)>>)),
                         SPrint(EList(<<I(0), EIStr(<<Lit(<<60>>), SlotP(0, EBin("+", Q, EStr(<<33>>))), Lit(<<62>>)>>)>>))>>,
  \* the same failing expression text at two columns of one line
  SameExprTwice    |-> <<SDecl(Q, EList(<<I(1), EStr(<<97>>)>>)),
                         SPrint(EList(<<EBin("+", EIndex(Q, I(0)), I(1)), EBin("+", EIndex(Q, I(1)), I(1))>>))>>
]

Prelude ==
    <<SFn(<<102, 48>>, <<>>, FALSE, <<>>),
      SFn(<<102, 114>>, <<Nm(<<97>>), Nm(<<114>>)>>, TRUE, <<>>),
      SFn(<<105, 100, 102>>, <<Nm(<<97>>)>>, FALSE, <<SReturn(Nm(<<97>>))>>),
      SDecl(Xs, EList(<<I(1), I(2)>>)), SDecl(Vv, I(0))>>

GN(i) == <<103, 48 + i>>           \* g1, g2, ...
Prints(kx) == [i \in 1 .. kx |-> SPrint(I(i))]
\* call chain: root calls g1, g1 calls g2, ... g<d> contains the failing statements
Wrappers == {"named", "anonvar", "method", "inloop", "inblock"}
RECURSIVE Chain(_, _, _)
Chain(i, d, body) ==        \* declarations of g_i .. g_d ; g_d holds `body`
    IF i > d THEN <<>>
    ELSE <<SFn(GN(i), <<>>, FALSE,
               IF i = d THEN body ELSE <<SPrint(I(40 + i)), SExpr(ECall(Nm(GN(i + 1)), <<>>)), SPrint(I(50 + i))>>)>>
         \o Chain(i + 1, d, body)

Place(w, d, kx, stmts) ==
    LET body == Prints(kx) \o stmts \o <<SPrint(I(99))>> IN
    Prelude \o
    IF d = 0 THEN
        CASE w = "inloop"  -> <<SFor(Nm(<<122>>), EList(<<I(1), I(2)>>), body)>>
          [] w = "inblock" -> <<SBlock(body)>>
          [] OTHER         -> body
    ELSE
        CASE w = "named"   -> Chain(1, d, body) \o <<SExpr(ECall(Nm(GN(1)), <<>>))>>
          [] w = "anonvar" -> Chain(2, d, body)
                              \o <<SDecl(Nm(GN(1)),
                                         EFunc(<<>>, FALSE,
                                               IF d = 1 THEN body
                                               ELSE <<SExpr(ECall(Nm(GN(2)), <<>>))>>)),
                                   SExpr(ECall(Nm(GN(1)), <<>>))>>
          [] w = "method"  -> Chain(2, d, body)
                              \o <<SDecl(Nm(<<111>>),
                                         EObj(<<Pair(EStr(<<109>>),
                                                     EFunc(<<>>, FALSE,
                                                           IF d = 1 THEN body
                                                           ELSE <<SExpr(ECall(Nm(GN(2)), <<>>))>>))>>)),
                                   SExpr(ECall(EProp(Nm(<<111>>), <<109>>), <<>>))>>
          [] w = "inloop"  -> Chain(1, d, <<SWhile(EBool(TRUE), body)>>) \o <<SExpr(ECall(Nm(GN(1)), <<>>))>>
          [] w = "inblock" -> Chain(1, d, <<SBlock(body)>>) \o <<SExpr(ECall(Nm(GN(1)), <<>>))>>

\* parameter tuples <<family, error, host, wrapper, depth, prints>>
C17Params ==
    { <<"expr", e, h, w, d, kx>> :
        e \in DOMAIN ErrExprs, h \in Hosts, w \in {"named"}, d \in 0 .. 1, kx \in {0} }
    \cup { <<"expr", e, h, w, d, kx>> :
        e \in DOMAIN ErrExprs, h \in {"stmt", "return", "arg", "ifcond", "slot"}, w \in Wrappers,
        d \in 0 .. MaxDepth, kx \in 0 .. 2 }
    \cup { <<"stmt", e, "-", w, d, kx>> :
        e \in DOMAIN ErrStmts, w \in Wrappers \ {"inloop"}, d \in 0 .. MaxDepth, kx \in {0, 2} }
    \cup { <<"stmt", e, "-", "inloop", d, kx>> :        \* (break / continue are legitimate inside a loop)
        e \in DOMAIN ErrStmts \ {"BreakOutsideLoop", "ContinueOutsideLoop"}, d \in 0 .. MaxDepth, kx \in {0, 2} }
    \cup { <<"stray", e, "-", "named", 0, kx>> : e \in {"return"}, kx \in 0 .. 1 }

C17ProgOf(p) ==
    CASE p[1] = "expr"  -> Place(p[4], p[5], p[6], Host(p[3], ErrExprs[p[2]]))
      [] p[1] = "stmt"  -> Place(p[4], p[5], p[6], ErrStmts[p[2]])
      [] p[1] = "stray" -> Prelude \o Prints(p[6]) \o <<SReturn(I(1))>>

-----------------------------------------------------------------------------
Finished == status.k # "running"
Depth == pi[5]
\* Hosts in which some expressions do not fail (e.g. `return e` at top level is
\* itself an error after e; a condition of type X) are still failures: every case
\* of this model must end in exactly one located diagnostic.
AlwaysFails == (Finished /\ pi[1] \in {"expr", "stmt", "stray"}) => status.k = "failed"

\* stdout = exactly the prints completed before the failure
StdoutIsCompletedPrints ==
    (Finished /\ pi[1] \in {"expr", "stmt"} /\ status.k = "failed" /\ pi[4] # "inloop") =>
        LET marks == [i \in 1 .. (IF pi[4] \in {"anonvar", "method"} THEN Min({1, Depth}) ELSE Depth) - 1 |-> 0] IN
        \* the chain functions print 4i before calling on; then the k prints
        /\ \A i \in 1 .. Len(out) : out[i] # DecBytes(99)
        /\ Len(out) >= pi[6]
        /\ SubSeq(out, Len(out) - pi[6] + 1, Len(out)) = [i \in 1 .. pi[6] |-> DecBytes(i)]
           \/ status.diag.kind \in {"PrintCyclic"} \/ pi[3] \in {"printarg", "foriter", "ifcond", "elifcond"}
           \/ Len(out) > pi[6]

\* one stack-trace line per active call, innermost first, ending at <root>
TraceIsActiveCalls ==
    (Finished /\ pi[1] \in {"expr", "stmt"} /\ status.k = "failed") =>
        LET d == status.diag
            n == Len(d.trace)
            extra == IF pi[2] \in {"ParamBindError", "ThisParam", "ThisRedeclared"} THEN 1
                     ELSE IF pi[1] = "expr" /\ pi[3] = "fnbodyexpr" THEN 1 ELSE 0 IN
        /\ n = Depth + extra
        /\ n > 0 => d.trace[n].fn.k = "root"
        /\ \A i \in 1 .. n - 1 : d.trace[i].fn.k # "root"
        /\ n = 0 => \A i \in 1 .. Len(d.locs) : d.locs[i].fn.k = "root"
        \* the prefix names the innermost active function
        /\ (n > 0 /\ extra = 0) => d.locs[Len(d.locs)].fn.k # "root"
        /\ (pi[4] = "named" /\ Depth > 0 /\ extra = 0) =>
              /\ d.locs[Len(d.locs)].fn = FnNamed(GN(Depth))
              /\ \A i \in 1 .. n - 1 : d.trace[i].fn = FnNamed(GN(Depth - i))
        /\ (pi[4] \in {"anonvar", "method"} /\ Depth = 1 /\ extra = 0) => d.locs[Len(d.locs)].fn = FnAnon

C17Laws == AlwaysFails /\ TraceIsActiveCalls /\ StdoutIsCompletedPrints
=============================================================================
