------------------------------- MODULE MC_C19 -------------------------------
(***************************************************************************)
(* C19 -- runs are deterministic; printing is a canonical function of the  *)
(* value.                                                                  *)
(*  * Determinism: the machine has no choice anywhere (TLC reports the     *)
(*    maximal out-degree of the state graph, which must be 1).             *)
(*  * RenderShape (ASSUME): an independent, line-oriented formulation of   *)
(*    the rendering rule -- `<null>`, decimal, raw string, `[` / one       *)
(*    indented `item,` line group per element / `]`, `"key": value,` in    *)
(*    ascending key order, four spaces per level -- agrees with the        *)
(*    specification's `Render` on a pool of values (nested to depth 3,     *)
(*    strings with newlines, empty containers, functions).                 *)
(*  * Canonical: pairs of construction histories of equal values print     *)
(*    identically; `print` returns null.                                   *)
(***************************************************************************)
EXTENDS SeedMC

-----------------------------------------------------------------------------
(* RenderShape *)
s0 == Slot(VInt(0))
sN == Slot(VInt(-12))
KA == <<97>>
KB == <<98>>
KZ == <<90>>
RH == <<
  CList(<<>>),                                             \* 1
  CObj(<<>>),                                              \* 2
  CList(<<s0, sN>>),                                       \* 3
  CObj((KB :> s0) @@ (KA :> Slot(VStr(<<120, 10, 121>>))) @@ (KZ :> Slot(VNull))),   \* 4  string with a newline
  CList(<<Slot(VList(3)), Slot(VObj(4)), Slot(VList(1)), Slot(VObj(2))>>),           \* 5
  CObj((KA :> Slot(VList(5))) @@ (<<>> :> Slot(VBool(TRUE)))),                        \* 6  depth 3, empty key
  CFn(SomeName(<<102>>), <<>>, FALSE, <<>>, <<1>>),        \* 7
  CFn(NoName, <<>>, FALSE, <<>>, <<1>>),                   \* 8
  CList(<<Slot(VFn(7)), Slot(VFn(8)), Slot(VBuiltin(N_print)), Slot(VStr(<<>>))>>),   \* 9
  CList(<<Slot(VList(3)), Slot(VList(3))>>),               \* 10 shared child
  CList(<<Slot(VObj(6)), Slot(VStr(<<10>>))>>)             \* 11 depth 4
>>
RPool == {VNull, VBool(TRUE), VBool(FALSE), VInt(0), VInt(-12), VInt(1073741823), VStr(<<>>),
          VStr(<<195, 169>>), VStr(<<120, 10, 121>>), VFn(7), VFn(8), VBuiltin(N_print)}
         \cup {IF RH[i].k = "list" THEN VList(i) ELSE VObj(i) : i \in {j \in 1 .. Len(RH) : RH[j].k # "func"}}

JoinNl(ls) == JoinWith(ls, <<10>>)

Ind == <<32, 32, 32, 32>>
\* an element's lines inside a container: `prefix` before the first line, every line
\* indented one level, a comma after the last line
Elem(prefix, ls) ==
    [i \in 1 .. Len(ls) |->
        Ind \o (IF i = 1 THEN prefix ELSE <<>>) \o ls[i] \o (IF i = Len(ls) THEN <<44>> ELSE <<>>)]

RECURSIVE Lines(_)
Lines(v) ==
    CASE v.k = "null"    -> <<T_null>>
      [] v.k = "bool"    -> <<IF v.b THEN T_true ELSE T_false>>
      [] v.k = "int"     -> <<DecBytes(v.n)>>
      [] v.k = "string"  -> SplitNl(v.s)
      [] v.k = "list"    -> <<(<<91>>)>>
                            \o Concat([i \in 1 .. Len(RH[v.id].items) |-> Elem(<<>>, Lines(RH[v.id].items[i].v))])
                            \o <<(<<93>>)>>
      [] v.k = "object"  -> LET ks == SortKeys(DOMAIN RH[v.id].props) IN
                            <<(<<123>>)>>
                            \o Concat([i \in 1 .. Len(ks) |->
                                         Elem(<<34>> \o ks[i] \o <<34, 58, 32>>, Lines(RH[v.id].props[ks[i]].v))])
                            \o <<(<<125>>)>>
      [] v.k = "builtin" -> <<T_bfn_open \o v.name \o T_fn_close>>
      [] v.k = "func"    -> <<T_fn_open \o (IF RH[v.id].name.some
                                            THEN T_some_open \o RH[v.id].name.b \o T_some_close ELSE T_none)
                              \o T_fn_close>>

RenderShape == \A v \in RPool : Render(v, RH).ok /\ Render(v, RH).b = JoinNl(Lines(v))
ASSUME RenderShape

-----------------------------------------------------------------------------
(* Canonical: programs *)
I(n) == EInt(n)
Nm(sx) == EVar(sx)
A == Nm(<<97>>)
Bv == Nm(<<98>>)
Cv == Nm(<<99>>)
Str(bs) == EStr(bs)
Pairs == [
  listlit_concat  |-> <<SDecl(A, EList(<<I(1), I(2)>>)), SDecl(Bv, EBin("+", EList(<<I(1)>>), EList(<<I(2)>>)))>>,
  listlit_range   |-> <<SDecl(A, EList(<<I(1), I(2)>>)), SDecl(Bv, ERange(I(1), I(3)))>>,
  listlit_assign  |-> <<SDecl(A, EList(<<I(1), I(2)>>)), SDecl(Bv, EList(<<I(9), I(9)>>)),
                        SAssign(ERIndex(Bv, ENone, ENone), A)>>,
  objorder        |-> <<SDecl(A, EObj(<<Pair(Str(KA), I(1)), Pair(Str(KB), I(2))>>)),
                        SDecl(Bv, EObj(<<Pair(Str(KB), I(2)), Pair(Str(KA), I(1))>>))>>,
  objinsert       |-> <<SDecl(A, EObj(<<Pair(Str(KA), I(1)), Pair(Str(KB), I(2)), Pair(Str(<<66>>), I(3))>>)),
                        SDecl(Bv, EObj(<<>>)), SAssign(EProp(Bv, KB), I(2)), SAssign(EProp(Bv, <<66>>), I(3)),
                        SAssign(EIndex(Bv, Str(KA)), I(1))>>,
  objspread       |-> <<SDecl(A, EObj(<<Pair(Str(KA), I(1)), Pair(Str(KB), I(2))>>)),
                        SDecl(Bv, EObj(<<PSpread(EObj(<<Pair(Str(KB), I(0)), Pair(Str(KA), I(1))>>)), Pair(Str(KB), I(2))>>))>>,
  shared_copy     |-> <<SDecl(Cv, EList(<<I(1)>>)), SDecl(A, EList(<<Cv, Cv>>)),
                        SDecl(Bv, EList(<<EList(<<I(1)>>), EList(<<I(1)>>)>>))>>,
  sharedobj       |-> <<SDecl(Cv, EObj(<<Pair(Str(KA), I(1))>>)), SDecl(A, EList(<<Cv, Cv>>)),
                        SDecl(Bv, EList(<<EObj(<<Pair(Str(KA), I(1))>>), EObj(<<Pair(Str(KA), I(1))>>)>>))>>,
  sharedobj2      |-> <<SDecl(Cv, EObj(<<Pair(Str(KA), EList(<<I(1)>>))>>)),
                        SDecl(A, EObj(<<Pair(Str(KA), Cv), Pair(Str(KB), EList(<<Cv, Cv>>))>>)),
                        SDecl(Bv, EObj(<<Pair(Str(KB), EList(<<EObj(<<Pair(Str(KA), EList(<<I(1)>>))>>), Cv>>)),
                                         Pair(Str(KA), EObj(<<Pair(Str(KA), EList(<<I(1)>>))>>))>>))>>,
  sharedlist3     |-> <<SDecl(Cv, EList(<<I(1)>>)), SDecl(A, EList(<<Cv, EList(<<Cv>>), Cv>>)),
                        SDecl(Bv, EList(<<EList(<<I(1)>>), EList(<<EList(<<I(1)>>)>>), EList(<<I(1)>>)>>))>>,
  alias           |-> <<SDecl(A, EList(<<EObj(<<Pair(Str(KA), EList(<<>>))>>)>>)), SDecl(Bv, A)>>,
  nested          |-> <<SDecl(A, EObj(<<Pair(Str(KA), EList(<<EObj(<<Pair(Str(KB), EList(<<I(1), Str(<<120, 10, 121>>)>>))>>)>>))>>)),
                        SDecl(Cv, EList(<<I(1)>>)), SOpAssign(Cv, "+", EList(<<Str(<<120, 10, 121>>)>>)),
                        SDecl(Bv, EObj(<<Pair(Str(KA), EList(<<EObj(<<Pair(Str(KB), Cv)>>)>>))>>))>>,
  strings         |-> <<SDecl(A, Str(<<97, 98>>)), SDecl(Bv, EBin("+", Str(<<97>>), Str(<<98>>)))>>,
  deep4           |-> <<SDecl(A, EList(<<EList(<<EList(<<EList(<<>>), EObj(<<>>)>>)>>)>>)),
                        SDecl(Bv, EList(<<EList(<<EList(<<EList(<<>>)>>)>>)>>)),
                        SAssign(EIndex(EIndex(Bv, I(0)), I(0)), EBin("+", EIndex(EIndex(Bv, I(0)), I(0)), EList(<<EObj(<<>>)>>)))>>
]
Singles == [
  printnull  |-> <<SPrint(ECall(Nm(N_print), <<I(1)>>))>>,
  atoms      |-> <<SPrint(ENull), SPrint(EBool(TRUE)), SPrint(EBool(FALSE)), SPrint(I(-5)), SPrint(I(1000000)),
                   SPrint(Str(<<>>)), SPrint(Str(<<195, 169, 10>>))>>,
  funcs      |-> <<SFn(<<102>>, <<>>, FALSE, <<>>), SPrint(Nm(<<102>>)), SPrint(EFunc(<<>>, FALSE, <<>>)),
                   SPrint(Nm(N_print)), SPrint(ETProp(I(1), N_type)), SPrint(ETProp(Str(<<>>), N_len)),
                   SPrint(EList(<<Nm(<<102>>)>>))>>,
  \* keys and strings with line breaks, quotes and backslashes at depth 0, 1, 2 (every line of a nested value
  \* moves with its level, also the second line of a key)
  multilinekeys |-> <<SDecl(A, Str(<<102, 10, 115>>)),
                      SDecl(Bv, EObj(<<Pair(A, I(1)), Pair(Str(<<112>>), EList(<<A>>)), Pair(Str(<<34, 92>>), Str(<<34, 92, 10>>))>>)),
                      SPrint(Bv), SPrint(EList(<<Bv>>)), SPrint(EObj(<<Pair(Str(<<114, 10>>), EList(<<Bv, EObj(<<>>)>>))>>)),
                      SPrint(EList(<<EList(<<EObj(<<Pair(A, EObj(<<Pair(A, A)>>))>>)>>)>>))>>,
  emptyconts |-> <<SPrint(EList(<<>>)), SPrint(EObj(<<>>)), SPrint(EList(<<EList(<<>>), EObj(<<>>)>>))>>,
  longlist   |-> <<SPrint(ERange(I(0), I(40))), SPrint(EList(<<ERange(I(0), I(34)), Str(<<120>>)>>))>>,
  longfail   |-> <<SDecl(A, EBin("+", ERange(I(0), I(39)), EList(<<I(0)>>))), SPrint(I(1)),
                   SAssign(EIndex(A, I(39)), A), SPrint(A)>>,
  longfail2  |-> <<SDecl(A, EBin("+", ERange(I(0), I(35)), EList(<<EIndex(Str(<<195, 169>>), I(0))>>))), SPrint(I(1)), SPrint(A)>>,
  sharedempty |-> <<SDecl(Cv, EList(<<>>)), SPrint(EList(<<Cv, Cv>>)), SDecl(Bv, EObj(<<>>)),
                    SPrint(EList(<<Bv, EObj(<<Pair(Str(KA), Bv)>>), Bv>>)), SPrint(EObj(<<Pair(Str(KA), Cv), Pair(Str(KB), Cv)>>))>>,
  \* several violations at once: the first one in source order is the one reported, whatever the hash seed
  multimissing |-> <<SDecl(EObj(<<Short(Nm(<<112, 111>>)), Short(Nm(<<117, 115>>)), Short(Nm(<<104, 111>>)), Short(Nm(<<100, 98>>)),
                                  Short(Nm(<<116, 108>>)), Short(Nm(<<122, 122>>))>>), EObj(<<Pair(Str(KA), I(1))>>))>>,
  multidupparam |-> <<SFn(<<102>>, <<Nm(<<97>>), Nm(<<98>>), Nm(<<99>>), Nm(<<100>>), Nm(<<100>>), Nm(<<99>>), Nm(<<98>>), Nm(<<97>>)>>, FALSE, <<>>)>>,
  multidupbind |-> <<SDecl(EPat(<<Nm(<<97>>), Nm(<<98>>), Nm(<<99>>), Nm(<<99>>), Nm(<<98>>), Nm(<<97>>)>>),
                           EList(<<I(1), I(2), I(3), I(4), I(5), I(6)>>))>>,
  multiundef  |-> <<SPrint(EList(<<Nm(<<117, 49>>), Nm(<<117, 50>>), Nm(<<117, 51>>)>>))>>,
  multishort  |-> <<SPrint(EObj(<<Short(Nm(<<117, 49>>)), Short(Nm(<<117, 50>>)), Short(Nm(<<117, 51>>))>>))>>,
  multirest   |-> <<SDecl(EObj(<<Short(Nm(<<97>>)), PCollect(Nm(<<114>>))>>),
                          EObj(<<Pair(Str(<<122>>), I(1)), Pair(Str(<<121>>), I(2)), Pair(Str(<<120>>), I(3)), Pair(Str(KA), I(0)),
                                 Pair(Str(<<119>>), I(4)), Pair(Str(<<118>>), I(5))>>)),
                    SPrint(Nm(<<114>>)), SFor(Cv, Nm(<<114>>), <<SPrint(Cv)>>)>>,
  keys       |-> <<SPrint(EObj(<<Pair(Str(<<98>>), I(1)), Pair(Str(<<66>>), I(2)), Pair(Str(<<>>), I(3)),
                                 Pair(Str(<<97, 32, 98>>), I(4)), Pair(Str(<<195, 169>>), I(5)), Pair(Str(<<97>>), I(6))>>))>>
]

C19Params ==
    { <<"pair", n>> : n \in DOMAIN Pairs } \cup { <<"single", n>> : n \in DOMAIN Singles }
C19ProgOf(p) ==
    CASE p[1] = "pair"   -> Pairs[p[2]] \o <<SPrint(A), SPrint(Bv), SPrint(EBin("==", A, Bv))>>
      [] p[1] = "single" -> Singles[p[2]]

\* values that are == print identically whatever their construction history
Canonical ==
    (status.k # "running" /\ pi[1] = "pair") =>
        status.k = "done" /\ out[1] = out[2] /\ out[3] = T_true
PrintReturnsNull ==
    (status.k # "running" /\ pi = <<"single", "printnull">>) => out = <<DecBytes(1), T_null>>
C19Laws == Canonical /\ PrintReturnsNull
=============================================================================
