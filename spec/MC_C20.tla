------------------------------- MODULE MC_C20 -------------------------------
(***************************************************************************)
(* C20 -- names must be declared once per scope before use; `_` never      *)
(* binds.  All sequences of declaration (six entry points), redeclaration, *)
(* assignment, op-assignment and read events over x, y and `_`, at top     *)
(* level and with the tail of the sequence inside a block / function call  *)
(* / loop body / branch; every non-bindable expression kind in every       *)
(* binding position.                                                       *)
(* `Expected` is an independent, declarative reading of the rules for flat *)
(* sequences (a fold over the events with the set of declared names); the  *)
(* machine must end the way it says (FlatOracle).                          *)
(***************************************************************************)
EXTENDS SeedMC

CONSTANTS SeqLen, LongLen      \* LongLen: length of the extra sequences over CoreEvents (0 = none)

NX == <<120>>
NY == <<121>>
NameOf(i) == CASE i = 1 -> NX [] i = 2 -> NY [] i = 3 -> N_us
Q(pos) == <<113, 48 + pos>>

\* events <<kind, name>> coded kind * 10 + name
\*  1 decl  2 list-destructure decl  3 object-destructure decl  4 fn decl  5 assign  6 op-assign
\*  7 read  8 for target  9 parameter
Events == {kd * 10 + 1 : kd \in 1 .. 9} \cup {kd * 10 + 3 : kd \in 1 .. 7} \cup {12, 72, 52}

EvStmts(ev, pos) ==
    LET kd == ev \div 10
        nm == NameOf(ev - 10 * kd)
        v == EVar(nm) IN
    CASE kd = 1 -> <<SDecl(v, EInt(pos))>>
      [] kd = 2 -> <<SDecl(EPat(<<v>>), EList(<<EInt(10 + pos)>>))>>
      [] kd = 3 -> <<SDecl(EObj(<<Short(v)>>), EObj(<<Pair(EStr(nm), EInt(20 + pos))>>))>>
      [] kd = 4 -> <<SFn(nm, <<>>, FALSE, <<>>)>>
      [] kd = 5 -> <<SAssign(v, EInt(30 + pos))>>
      [] kd = 6 -> <<SOpAssign(v, "+", EInt(1))>>
      [] kd = 7 -> <<SPrint(v)>>
      [] kd = 8 -> <<SFor(EPat(<<EVar(N_us), v>>), EList(<<EInt(40 + pos)>>), <<SPrint(EInt(pos))>>)>>
      [] kd = 9 -> <<SFn(Q(pos), <<v>>, FALSE, <<SPrint(EInt(pos))>>), SExpr(ECall(EVar(Q(pos)), <<EInt(50 + pos)>>))>>

RECURSIVE Seqs(_)
Seqs(n) == IF n = 0 THEN {<<>>} ELSE {<<e>> \o s : e \in Events, s \in Seqs(n - 1)}
CoreEvents == {11, 21, 31, 41, 51, 61, 71, 13, 43, 73, 12}
RECURSIVE CoreSeqs(_)
CoreSeqs(n) == IF n = 0 THEN {<<>>} ELSE {<<e>> \o s : e \in CoreEvents, s \in CoreSeqs(n - 1)}

Flat(evs, from) == Concat([i \in 1 .. Len(evs) |-> EvStmts(evs[i], from + i)])
Wrappers == {"block", "call", "for", "if", "while", "whilecont", "forcont"}
W == <<119>>
Wrap(w, body) ==
    CASE w = "block" -> <<SBlock(body \o <<SPrint(EInt(0))>>)>>
      [] w = "call"  -> <<SFn(W, <<>>, FALSE, body), SExpr(ECall(EVar(W), <<>>))>>
      [] w = "for"   -> <<SFor(EVar(N_us), EList(<<EInt(1), EInt(2)>>), body)>>
      [] w = "if"    -> <<SIf(EBool(TRUE), body)>>
      [] w = "whilecont" -> <<SDecl(EVar(W), EInt(0)),
                              SWhile(EBin("<", EVar(W), EInt(2)), <<SOpAssign(EVar(W), "+", EInt(1))>> \o body \o <<SContinue>>)>>
      [] w = "forcont" -> <<SFor(EVar(N_us), EList(<<EInt(1), EInt(2)>>), body \o <<SContinue>>)>>
      [] w = "while" -> <<SDecl(EVar(W), EInt(0)),
                          SWhile(EBin("<", EVar(W), EInt(2)), <<SOpAssign(EVar(W), "+", EInt(1))>> \o body)>>

\* non-bindable kinds
Bad(i) == CASE i = 1 -> ENull [] i = 2 -> EBool(TRUE) [] i = 3 -> EInt(1) [] i = 4 -> EStr(<<115>>)
            [] i = 5 -> EBin("+", EVar(NX), EInt(1)) [] i = 6 -> ERange(EInt(0), EInt(1))
            [] i = 7 -> EFunc(<<>>, FALSE, <<>>) [] i = 8 -> ECall(EVar(N_print), <<EInt(1)>>)
            [] i = 9 -> EIStr(<<Lit(<<115>>)>>)
BadPos == {"decl", "assign", "opassign", "for", "param", "anonparam", "inlist", "inobj", "inparamlist"}
BadProg(i, pos) ==
    <<SDecl(EVar(NX), EInt(0))>> \o
    CASE pos = "decl"      -> <<SDecl(Bad(i), EInt(1))>>
      [] pos = "assign"    -> <<SAssign(Bad(i), EInt(1))>>
      [] pos = "opassign"  -> <<SOpAssign(Bad(i), "+", EInt(1))>>
      [] pos = "for"       -> <<SFor(Bad(i), EList(<<EInt(1)>>), <<SPrint(EInt(1))>>)>>
      [] pos = "param"     -> <<SPrint(EInt(7)), SFn(W, <<Bad(i)>>, FALSE, <<>>), SExpr(ECall(EVar(W), <<EInt(1)>>))>>
      [] pos = "anonparam" -> <<SDecl(EVar(W), EFunc(<<Bad(i)>>, FALSE, <<>>)), SPrint(EInt(7)),
                                SExpr(ECall(EVar(W), <<EInt(1)>>))>>
      [] pos = "inlist"    -> <<SDecl(EPat(<<EVar(NY), Bad(i)>>), EList(<<EInt(1), EInt(2)>>))>>
      [] pos = "inobj"     -> <<SDecl(EObj(<<Pair(EStr(<<107>>), Bad(i))>>), EObj(<<Pair(EStr(<<107>>), EInt(1))>>))>>
      [] pos = "inparamlist" -> <<SFn(W, <<EPat(<<EVar(NY), Bad(i)>>)>>, FALSE, <<>>)>>

\* one binding construct that names the same variable twice (it is one scope), and `_` repeated (never an error)
x == EVar(NX)
y == EVar(NY)
uu == EVar(N_us)
F == <<102>>
Dups == [
  params     |-> <<SFn(F, <<x, x>>, FALSE, <<SPrint(x)>>), SPrint(EInt(1)), SExpr(ECall(EVar(F), <<EInt(1), EInt(2)>>))>>,
  params3    |-> <<SFn(F, <<uu, y, y>>, FALSE, <<SPrint(y)>>), SPrint(EInt(1)), SExpr(ECall(EVar(F), <<EInt(0), EInt(1), EInt(2)>>))>>,
  paramsrest |-> <<SFn(F, <<x, x>>, TRUE, <<SPrint(x)>>), SPrint(EInt(1)), SExpr(ECall(EVar(F), <<EInt(1), EInt(2)>>))>>,
  anonparams |-> <<SDecl(EVar(F), EFunc(<<x, y, x>>, FALSE, <<SPrint(x)>>)), SPrint(EInt(1)),
                   SExpr(ECall(EVar(F), <<EInt(1), EInt(2), EInt(3)>>))>>,
  usparams   |-> <<SFn(F, <<uu, uu, x>>, FALSE, <<SPrint(x)>>), SExpr(ECall(EVar(F), <<EInt(1), EInt(2), EInt(3)>>))>>,
  paramlist  |-> <<SFn(F, <<x, EPat(<<y, x>>)>>, FALSE, <<SPrint(x)>>), SPrint(EInt(1)),
                   SExpr(ECall(EVar(F), <<EInt(1), EList(<<EInt(2), EInt(3)>>)>>))>>,
  paramobj   |-> <<SFn(F, <<x, EObj(<<Short(x)>>)>>, FALSE, <<SPrint(x)>>), SPrint(EInt(1)),
                   SExpr(ECall(EVar(F), <<EInt(1), EObj(<<Pair(EStr(NX), EInt(2))>>)>>))>>,
  parambody  |-> <<SFn(F, <<x>>, FALSE, <<SDecl(x, EInt(5)), SPrint(x)>>), SPrint(EInt(1)), SExpr(ECall(EVar(F), <<EInt(1)>>))>>,
  parambodyblock |-> <<SFn(F, <<x>>, FALSE, <<SBlock(<<SDecl(x, EInt(5)), SPrint(x)>>), SPrint(x)>>),
                       SExpr(ECall(EVar(F), <<EInt(1)>>))>>,
  listdecl   |-> <<SPrint(EInt(1)), SDecl(EPat(<<x, y, x>>), EList(<<EInt(1), EInt(2), EInt(3)>>))>>,
  listassign |-> <<SDecl(x, EInt(0)), SAssign(EPat(<<x, x>>), EList(<<EInt(1), EInt(2)>>)), SPrint(x)>>,
  objdecl    |-> <<SPrint(EInt(1)), SDecl(EObj(<<Short(x), Pair(EStr(NY), x)>>), EObj(<<Pair(EStr(NX), EInt(1)), Pair(EStr(NY), EInt(2))>>))>>,
  fortarget  |-> <<SFor(EPat(<<x, x>>), EList(<<EInt(7)>>), <<SPrint(x)>>)>>,
  forbody    |-> <<SFor(EPat(<<uu, x>>), EList(<<EInt(7), EInt(8)>>), <<SDecl(x, EInt(1)), SPrint(x)>>)>>,
  forbodyy   |-> <<SFor(EPat(<<uu, x>>), EList(<<EInt(7), EInt(8)>>), <<SDecl(y, x), SPrint(y)>>)>>,
  fnname     |-> <<SFn(F, <<EVar(F)>>, FALSE, <<SPrint(EVar(F))>>), SExpr(ECall(EVar(F), <<EInt(1)>>)), SFn(F, <<>>, FALSE, <<>>)>>,
  patternorder |-> <<SDecl(EObj(<<Pair(EStr(<<102>>), x), Pair(x, y)>>),
                           EObj(<<Pair(EStr(<<102>>), EStr(<<112>>)), Pair(EStr(<<112>>), EInt(8080))>>)),
                     SPrint(x), SPrint(y)>>,
  patternorderlist |-> <<SDecl(EPat(<<x, EObj(<<Pair(x, y)>>)>>),
                               EList(<<EStr(<<112>>), EObj(<<Pair(EStr(<<112>>), EInt(1))>>)>>)),
                         SPrint(x), SPrint(y)>>,
  patternorderouter |-> <<SDecl(x, EStr(<<113>>)),
                          SBlock(<<SDecl(EObj(<<Pair(EStr(<<102>>), x), Pair(x, y)>>),
                                         EObj(<<Pair(EStr(<<102>>), EStr(<<112>>)), Pair(EStr(<<112>>), EInt(1)), Pair(EStr(<<113>>), EInt(2))>>)),
                                   SPrint(x), SPrint(y)>>)>>,
  builtinredecl |-> <<SPrint(EInt(1)), SDecl(EVar(N_print), EInt(1))>>,
  builtinredeclfn |-> <<SPrint(EInt(1)), SFn(N_print, <<x>>, FALSE, <<>>)>>,
  builtinshadow |-> <<SBlock(<<SDecl(EVar(N_print), EInt(1)), SDecl(y, EVar(N_print))>>), SPrint(EInt(2))>>,
  builtinassign |-> <<SDecl(y, EVar(N_print)), SAssign(EVar(N_print), EInt(1)), SExpr(ECall(y, <<EVar(N_print)>>))>>,
  thisredecl |-> <<SDecl(y, EObj(<<Pair(EStr(<<109>>), EFunc(<<>>, FALSE, <<SPrint(EInt(1)), SDecl(EVar(N_this), EInt(1))>>))>>)),
                   SExpr(ECall(EProp(y, <<109>>), <<>>))>>,
  thisparam  |-> <<SDecl(y, EObj(<<Pair(EStr(<<109>>), EFunc(<<EVar(N_this)>>, FALSE, <<SPrint(EInt(1))>>))>>)),
                   SPrint(EInt(0)), SExpr(ECall(EProp(y, <<109>>), <<EInt(2)>>))>>,
  thisblock  |-> <<SDecl(y, EObj(<<Pair(EStr(<<109>>), EFunc(<<>>, FALSE, <<SBlock(<<SDecl(EVar(N_this), EInt(1)), SPrint(EVar(N_this))>>)>>))>>)),
                   SExpr(ECall(EProp(y, <<109>>), <<>>))>>,
  restsame   |-> <<SPrint(EInt(1)), SDecl(EPatRest(<<x, x>>), EList(<<EInt(1), EInt(2)>>))>>,
  objrestsame |-> <<SPrint(EInt(1)), SDecl(EObj(<<Short(x), PCollect(x)>>), EObj(<<Pair(EStr(NX), EInt(1))>>))>>,
  \* `_` as the collector of a pattern or of a parameter list discards too: repeated in one scope, never declared
  objrestus  |-> <<SDecl(EObj(<<Short(x), PCollect(uu)>>), EObj(<<Pair(EStr(NX), EInt(1)), Pair(EStr(NY), EInt(2))>>)), SPrint(x),
                   SDecl(EObj(<<Short(y), PCollect(uu)>>), EObj(<<Pair(EStr(NX), EInt(3)), Pair(EStr(NY), EInt(4))>>)), SPrint(y)>>,
  listrestus |-> <<SDecl(EPatRest(<<x, uu>>), EList(<<EInt(1), EInt(2)>>)), SPrint(x),
                   SDecl(EPatRest(<<y, uu>>), EList(<<EInt(3), EInt(4), EInt(5)>>)), SPrint(y)>>,
  paramrestus |-> <<SFn(F, <<x, uu>>, TRUE, <<SPrint(x), SDecl(EPatRest(<<y, uu>>), EList(<<EInt(3)>>)), SPrint(y)>>),
                    SExpr(ECall(EVar(F), <<EInt(1), EInt(2), EInt(3)>>))>>
]
\* a name declared in an enclosing scope *after* a function was created there is visible to the function when it
\* is called later; one declared after the call is not; every enclosing scope counts, also one that was empty
LateWraps == {"block", "if", "for", "call", "else"}
LateWrap(w, body) ==
    CASE w = "block" -> <<SBlock(body)>>
      [] w = "if"    -> <<SIf(EBool(TRUE), body)>>
      [] w = "else"  -> <<SIfOf(<<Branch(EBool(FALSE), <<SPrint(EInt(0))>>)>>, Else(body))>>
      [] w = "for"   -> <<SFor(uu, EList(<<EInt(1)>>), body)>>
      [] w = "call"  -> <<SFn(W, <<>>, FALSE, body), SExpr(ECall(EVar(W), <<>>))>>
G == <<103>>
LateProg(w1, w2, variant) ==
    <<SDecl(EVar(G), ENull)>>
    \o (IF variant = "shadow" THEN <<SDecl(x, EInt(1))>> ELSE <<>>)
    \o LateWrap(w1, LateWrap(w2, <<SAssign(EVar(G), EFunc(<<>>, FALSE, <<SReturn(x)>>))>>)
                     \o (IF variant = "after" THEN <<SPrint(ECall(EVar(G), <<>>))>> ELSE <<>>)
                     \o <<SDecl(x, EInt(2)), SPrint(ECall(EVar(G), <<>>))>>)
    \o <<SPrint(ECall(EVar(G), <<>>))>>

\* parameter tuples <<family, events, split, wrapper>>
C20Params ==
    { <<"flat", s, 0, "-">> : s \in UNION {Seqs(n) : n \in 1 .. SeqLen} }
    \cup (IF LongLen > 0 THEN { <<"flat", s, 0, "-">> : s \in CoreSeqs(LongLen) } ELSE {})
    \cup { <<"nest", s, 1, w>> : s \in UNION {Seqs(n) : n \in 2 .. (SeqLen - 1)}, w \in Wrappers }
    \cup { <<"bad", <<i>>, 0, pos>> : i \in 1 .. 9, pos \in BadPos }
    \cup { <<"dup", <<>>, 0, d>> : d \in DOMAIN Dups }
    \cup { <<"late", <<w1, w2>>, 0, v>> : w1 \in LateWraps, w2 \in LateWraps, v \in {"plain", "shadow", "after"} }

C20ProgOf(p) ==
    CASE p[1] = "flat" -> Flat(p[2], 0) \o <<SPrint(EInt(99))>>
      [] p[1] = "nest" -> Flat(SubSeq(p[2], 1, p[3]), 0)
                          \o Wrap(p[4], Flat(SubSeq(p[2], p[3] + 1, Len(p[2])), p[3]))
                          \o <<SPrint(EVar(NX))>>
      [] p[1] = "bad"  -> BadProg(p[2][1], p[4])
      [] p[1] = "dup"  -> Dups[p[4]]
      [] p[1] = "late" -> LateProg(p[2][1], p[2][2], p[4])

-----------------------------------------------------------------------------
(* The declarative oracle for flat sequences *)
RECURSIVE Expected(_, _, _)
Expected(evs, i, decl) ==          \* "ok" or the kind of the first error
    IF i > Len(evs) THEN "ok"
    ELSE LET kd == evs[i] \div 10
             ni == evs[i] - 10 * kd
             us == ni = 3 IN
         CASE kd \in {1, 2, 3, 4} ->
                  IF us THEN Expected(evs, i + 1, decl)
                  ELSE IF ni \in decl THEN "AlreadyInScope"
                  ELSE Expected(evs, i + 1, decl \cup {ni})
           [] kd \in {5, 6} ->
                  IF us THEN Expected(evs, i + 1, decl)
                  ELSE IF ni \in decl THEN Expected(evs, i + 1, decl) ELSE "Undefined"
           [] kd = 7 -> IF ~us /\ ni \in decl THEN Expected(evs, i + 1, decl) ELSE "Undefined"
           [] kd \in {8, 9} -> Expected(evs, i + 1, decl)

\* op-assigning `+ 1` to a function value is a type error, not a naming error
FlatOracle ==
    (status.k # "running" /\ pi[1] = "flat") =>
        LET ex == Expected(pi[2], 1, {}) IN
        IF ex = "ok" THEN status.k = "done" \/ status.diag.kind = "InvalidOpTypes"
        ELSE status.k = "failed" /\ status.diag.kind \in {ex, "InvalidOpTypes"}

\* a non-bindable target is always a reported error of that kind
BadIsError ==
    (status.k # "running" /\ pi[1] = "bad") =>
        status.k = "failed" /\ status.diag.kind \in {"InvalidBindTarget", "OpOnListDestructure"}

\* naming one variable twice in one binding construct is a reported error, whatever the construct
DupIsError ==
    (status.k # "running" /\ pi[1] = "dup" /\ pi[4] \in {"params", "params3", "paramsrest", "anonparams", "paramlist",
                                                         "paramobj", "parambody", "listdecl", "objdecl", "fortarget",
                                                         "forbody", "restsame", "objrestsame"}) =>
        status.k = "failed" /\ status.diag.kind \in {"AlreadyInScope", "DupParamName", "AlreadyInBinding"}
C20Laws == FlatOracle /\ BadIsError /\ DupIsError
=============================================================================
