------------------------------ MODULE MC_Layout ------------------------------
(***************************************************************************)
(* C09 -- newline equals `;`; whitespace, comments and line layout never   *)
(* change the token stream.  Token sequences over every continuation       *)
(* token and one non-continuation token of each class, joined by every     *)
(* separator (nothing where tokens cannot merge, space, tab, CR, LF,       *)
(* comment + LF, `;`, blank line, CR LF, `;` surrounded by spaces); the    *)
(* lexer machine must produce exactly the tokens written, with a statement *)
(* end exactly where the rule of the property says (`Expected`).           *)
(***************************************************************************)
EXTENDS SeedLex, Json

CONSTANTS Firsts, TripleFirsts, Seconds, Thirds, Seps

\* token texts
TokText == [
  Sum |-> <<43>>, Sub |-> <<45>>, Mul |-> <<42>>, Div |-> <<47>>, Mod |-> <<37>>,
  EqualsEquals |-> <<61, 61>>, BangEquals |-> <<33, 61>>, LessThan |-> <<60>>, LessThanEquals |-> <<60, 61>>,
  GreaterThan |-> <<62>>, GreaterThanEquals |-> <<62, 61>>, AmpAmp |-> <<38, 38>>, PipePipe |-> <<124, 124>>,
  Equals |-> <<61>>, ColonEquals |-> <<58, 61>>, SumEquals |-> <<43, 61>>, SubEquals |-> <<45, 61>>,
  MulEquals |-> <<42, 61>>, DivEquals |-> <<47, 61>>, ModEquals |-> <<37, 61>>, Comma |-> <<44>>,
  Dot |-> <<46>>, ParenOpen |-> <<40>>, BracketOpen |-> <<91>>, BraceOpen |-> <<123>>,
  Ident |-> <<97, 98>>, IntLiteral |-> <<49, 50>>, StrLiteral |-> <<34, 115, 34>>, ParenClose |-> <<41>>,
  BracketClose |-> <<93>>, BraceClose |-> <<125>>, DotDot |-> <<46, 46>>, DashGreaterThan |-> <<45, 62>>,
  EqualsEqualsEquals |-> <<61, 61, 61>>, BangEqualsEquals |-> <<33, 61, 61>>, Colon |-> <<58>>,
  If |-> <<105, 102>>, Break |-> <<98, 114, 101, 97, 107>>, Null |-> <<110, 117, 108, 108>>,
  InterpStrLiteral |-> <<36, 34, 115, 34>> ]
AllToks == DOMAIN TokText
NonCont == AllToks \ ContinuationToks
\* the remaining keywords, and identifiers that begin or end like a keyword (a word is a keyword only as a whole)
KwText2 == [
  Continue |-> <<99, 111, 110, 116, 105, 110, 117, 101>>, Else |-> <<101, 108, 115, 101>>, False |-> <<102, 97, 108, 115, 101>>,
  Fn |-> <<102, 110>>, For |-> <<102, 111, 114>>, In |-> <<105, 110>>, Return |-> <<114, 101, 116, 117, 114, 110>>,
  True |-> <<116, 114, 117, 101>>, While |-> <<119, 104, 105, 108, 101>> ]
IdText == [
  IdElse |-> <<101, 108, 115, 101, 119, 104, 101, 114, 101>>,      \* elsewhere
  IdElse2 |-> <<101, 108, 115, 101, 95, 49>>,                      \* else_1
  IdIf |-> <<105, 102, 102, 121>>,                                 \* iffy
  IdIn |-> <<105, 110, 120>>,                                      \* inx
  IdFn |-> <<102, 110, 49>>,                                       \* fn1
  IdFor |-> <<102, 111, 114, 109>>,                                \* form
  IdNull |-> <<110, 117, 108, 108, 115>>,                          \* nulls
  IdTrue |-> <<116, 114, 117, 101, 95>>,                           \* true_
  IdWhile |-> <<119, 104, 105, 108, 101, 115>>,                    \* whiles
  IdBreak |-> <<98, 114, 101, 97, 107, 115>>,                      \* breaks
  IdRet |-> <<114, 101, 116, 117, 114, 110, 101, 100>>,            \* returned
  IdCont |-> <<99, 111, 110, 116, 105, 110, 117, 101, 100>>,       \* continued
  IdFalse |-> <<102, 97, 108, 115, 101, 121>>,                     \* falsey
  IdUs |-> <<95, 101, 108, 115, 101>>,                             \* _else
  IdThis |-> <<116, 104, 105, 115>>,                               \* this
  IdUpper |-> <<69, 108, 115, 101>> ]                              \* Else
NewToks == DOMAIN KwText2 \cup DOMAIN IdText
TextOfTok(n) == IF n \in DOMAIN TokText THEN TokText[n] ELSE IF n \in DOMAIN KwText2 THEN KwText2[n] ELSE IdText[n]
KindOfTok(n) == IF n \in DOMAIN IdText THEN "Ident" ELSE n

SepText == [
  none |-> <<>>, space |-> <<32>>, tab |-> <<9>>, cr |-> <<13>>, lf |-> <<10>>, comment |-> <<32, 35, 32, 59, 99, 10>>,
  semi |-> <<59>>, blank |-> <<10, 32, 10>>, crlf |-> <<13, 10>>, semisp |-> <<32, 59, 32>>, semilf |-> <<59, 10>>,
  commentonly |-> <<35, 120, 10, 35, 10>>,
  \* a comment runs to the line feed: a carriage return inside it is comment text
  commentcr |-> <<32, 35, 32, 97, 13, 43, 32, 98, 10>>, commentcronly |-> <<35, 13, 120, 13, 10>> ]
Terminates(sp) == sp \in {"lf", "comment", "semi", "blank", "crlf", "semisp", "semilf", "commentonly", "commentcr",
                         "commentcronly"}

\* may two tokens be written with nothing between them?
Brackets == {"ParenOpen", "ParenClose", "BracketOpen", "BracketClose", "BraceOpen", "BraceClose", "Comma"}
\* ... or a word-like token next to a symbol (`a-1`, `]-1`, `"s"+x`): they stay two tokens
WordLike == {"Ident", "IntLiteral", "StrLiteral", "InterpStrLiteral", "If", "Break", "Null"}
SymLike == DOMAIN TokText \ (WordLike \cup Brackets)
CanAbut(a, b) == \/ a \in Brackets \/ b \in Brackets
                 \/ (a \in WordLike /\ b \in SymLike /\ ~(a = "IntLiteral" /\ b \in {"Dot", "DotDot"}))
                 \/ (a \in SymLike /\ b \in WordLike /\ ~(a \in {"Dot", "DotDot"} /\ b = "IntLiteral")
                     /\ ~(b = "InterpStrLiteral"))

FirstsQuick == {"Ident", "IntLiteral", "Sum", "Sub", "Comma", "BraceOpen", "BraceClose", "ParenClose", "Dot",
                "ColonEquals", "DotDot", "EqualsEqualsEquals", "StrLiteral", "If"}
ThirdsQuick == {"Ident", "Sum", "BraceClose"}
SecondsQuick == {"Ident", "Sum", "Comma", "ParenClose", "BraceOpen", "StrLiteral", "Equals", "DotDot"}
TripleSeps == {"space", "lf", "semi", "comment", "crlf"}

\* pairs: every token x every separator x every token; triples: a smaller middle / last set
Cases ==
    { <<a, s1, b, "none", "-">> : a \in Firsts, s1 \in Seps, b \in Firsts }
    \cup { <<a, s1, b, "none", "-">> : a \in {"BraceClose", "Ident", "IntLiteral", "ParenClose", "Sum", "Comma", "StrLiteral"},
                                       s1 \in Seps, b \in NewToks }
    \cup { <<b, s1, a, "none", "-">> : b \in NewToks, s1 \in Seps, a \in {"Ident", "BraceOpen", "ParenOpen", "Sum", "IntLiteral"} }
    \cup { <<"BraceClose", s1, b, s2, "BraceOpen">> : s1 \in TripleSeps, b \in NewToks, s2 \in {"space", "lf"} }
    \* an operator written tight between two operands: `xs[0]-1`, `(a)-1`, `a-1`, `1-1`, `"s"+x`
    \cup { <<a, "none", b, "none", cx>> :
             a \in {"BracketClose", "ParenClose", "BraceClose", "Ident", "IntLiteral", "StrLiteral"},
             b \in {"Sub", "Sum", "Mul", "Div", "Mod", "LessThan", "GreaterThan", "EqualsEquals", "BangEquals", "AmpAmp",
                    "PipePipe", "Equals", "ColonEquals", "SubEquals", "DashGreaterThan", "Dot", "Comma", "Colon"},
             cx \in {"IntLiteral", "Ident", "StrLiteral", "ParenOpen", "BracketOpen"} }
    \cup { <<a, s1, b, s2, cx>> : a \in TripleFirsts, s1 \in TripleSeps, b \in Seconds, s2 \in TripleSeps, cx \in Thirds }

TextOf(cs) ==
    TextOfTok(cs[1]) \o SepText[cs[2]] \o TextOfTok(cs[3])
    \o (IF cs[5] = "-" THEN <<>> ELSE SepText[cs[4]] \o TextOfTok(cs[5])) \o <<10>>

SepsAll == DOMAIN SepText

VARIABLE cs
Abuts(y) == (y[2] # "none" \/ CanAbut(y[1], y[3])) /\ (y[5] = "-" \/ y[4] # "none" \/ CanAbut(y[3], y[5]))
LInit == \E x \in {y \in Cases : Abuts(y)} : cs = x /\ LexInit(TextOf(x))
LNext == LexNext /\ cs' = cs

\* the rule of the property: a statement ends at a newline or `;` unless the previous
\* token is a continuation token
EndAfter(tk, sp) == IF Terminates(sp) /\ tk \notin ContinuationToks THEN <<"StmtEnd">> ELSE <<>>
Expected(x) ==
    <<KindOfTok(x[1])>> \o EndAfter(x[1], x[2]) \o <<KindOfTok(x[3])>>
    \o (IF x[5] = "-" THEN EndAfter(x[3], "lf")
        ELSE EndAfter(x[3], x[4]) \o <<KindOfTok(x[5])>> \o EndAfter(x[5], "lf"))

LayoutRule == mode = "done" => [i \in 1 .. Len(toks) |-> toks[i].k] = Expected(cs)
NeverFails == mode # "failed"
EmitCase == mode \in {"done", "failed"} =>
               PrintT("LEX " \o ToJson([src |-> src, toks |-> toks, err |-> err, msg |-> LexMsg(err)]))
=============================================================================
