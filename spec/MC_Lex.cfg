INIT MCLexInit
NEXT MCLexNext
CONSTANTS
  MaxLen = 2
  Alphabet <- FullAlphabet
INVARIANTS
  LexInv
  EmitLex
PROPERTIES
  Progress
CHECK_DEADLOCK TRUE
