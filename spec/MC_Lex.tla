------------------------------- MODULE MC_Lex -------------------------------
(***************************************************************************)
(* All strings up to MaxLen over an alphabet chosen to reach every branch  *)
(* of the lexer; the lexer machine runs on each, the invariants are        *)
(* checked in every state and one LEX line is printed per string.          *)
(***************************************************************************)
EXTENDS SeedLex, SeedGrammar, Json

CONSTANTS MaxLen, Alphabet, Wraps      \* Wraps: set of <<prefix, suffix>> put around every string

RECURSIVE Strings(_)
Strings(n) == IF n = 0 THEN {<<>>} ELSE {<<ch>> \o s : ch \in Alphabet, s \in Strings(n - 1)}

VARIABLE body
MCLexInit == \E n \in 0 .. MaxLen : \E text \in Strings(n) : \E w \in Wraps :
                body = text /\ LexInit(w[1] \o text \o w[2])
MCLexNext == LexNext /\ body' = body

Kinds == [i \in 1 .. Len(toks) |-> toks[i].k]
Predicted ==
    LET v == Verdict(Kinds) IN
    IF mode = "failed"
    THEN IF v.at <= Len(toks) THEN [kind |-> "syntax", at |-> v.at] ELSE [kind |-> "lexical", at |-> 0]
    ELSE IF v.ok THEN [kind |-> "accept", at |-> 0] ELSE [kind |-> "syntax", at |-> v.at]

EmitLex == mode \in {"done", "failed"} =>
              PrintT("LEX " \o ToJson([src |-> src, toks |-> toks, err |-> err, msg |-> LexMsg(err), parse |-> Predicted]))

NoWrap == {<<(<<>>), (<<>>)>>}
\* p("...")  and  p($"...")
StrWraps == {<<(<<112, 40, 34>>), (<<34, 41, 10>>)>>, <<(<<112, 40, 36, 34>>), (<<34, 41, 10>>)>>}

\* DecodeExact: an independent reading of the escape rules.  For a body without an
\* unescaped quote, `$` or invalid escape, the plain literal denotes exactly this text.
RECURSIVE Decode(_, _)
Decode(b, i) ==
    IF i > Len(b) THEN [ok |-> TRUE, t |-> <<>>]
    ELSE IF b[i] \in {34, 36} THEN [ok |-> FALSE, t |-> <<>>]
    ELSE IF b[i] # 92 THEN LET r == Decode(b, i + 1) IN [ok |-> r.ok, t |-> <<b[i]>> \o r.t]
    ELSE IF i + 1 > Len(b) THEN [ok |-> FALSE, t |-> <<>>]
    ELSE LET e == b[i + 1] IN
         IF e \in {92, 34, 36} THEN LET r == Decode(b, i + 2) IN [ok |-> r.ok, t |-> <<e>> \o r.t]
         ELSE IF e = 110 THEN LET r == Decode(b, i + 2) IN [ok |-> r.ok, t |-> <<10>> \o r.t]
         ELSE IF e = 114 THEN LET r == Decode(b, i + 2) IN [ok |-> r.ok, t |-> <<13>> \o r.t]
         ELSE IF e = 120 /\ i + 3 <= Len(b) /\ HexVal(b[i + 2]) >= 0 /\ HexVal(b[i + 3]) >= 0
              THEN LET r == Decode(b, i + 4) IN
                   [ok |-> r.ok, t |-> <<HexVal(b[i + 2]) * 16 + HexVal(b[i + 3])>> \o r.t]
         ELSE [ok |-> FALSE, t |-> <<>>]
DecodeExact ==
    (mode = "done" /\ Decode(body, 1).ok /\ Len(toks) >= 3 /\ toks[3].k = "StrLiteral") =>
        toks[3].text = Decode(body, 1).t
\* a well-formed plain body never fails, an ill-formed one (other than by quotes) always does
DecodeDomain ==
    \* (a body ending in a backslash escapes the closing quote of the wrapper: excluded)
    (mode \in {"done", "failed"} /\ Len(src) > 3 /\ src[3] = 34 /\ \A i \in 1 .. Len(body) : body[i] \notin {34}
     /\ (Len(body) = 0 \/ body[Len(body)] # 92))
        => (Decode(body, 1).ok <=> mode = "done")

\* the branch alphabet: letter, digit, _, space, tab, CR, LF, ; # " $ \ { } x n + - = ! | & . > < :
\* and a 2-byte and a 4-byte character
FullAlphabet == {97, 49, 95, 32, 9, 13, 10, 59, 35, 34, 36, 92, 123, 125, 120, 110, 43, 45, 61, 33, 124, 38,
                 46, 62, 60, 58, 233, 128512,
                 \* characters that are none of the above classes but close to one: NUL, VT, DEL, NBSP,
                 \* a non-ASCII digit, a superscript digit, a non-ASCII letter, a line separator
                 0, 11, 127, 160, 1634, 178, 937, 8232}
BaseAlphabet == {97, 49, 95, 32, 9, 13, 10, 59, 35, 34, 36, 92, 123, 125, 120, 110, 43, 45, 61, 33, 124, 38,
                 46, 62, 60, 58, 233, 128512}
EdgeAlphabet == {0, 11, 127, 160, 1634, 178, 937, 8232, 97, 49, 34, 32, 43, 36, 10, 92}
\* string-literal alphabet (C15)
\* (+ and - : a hex escape takes two hex digits, not a signed number; blank)
StrAlphabet == {34, 36, 92, 123, 125, 120, 110, 114, 97, 52, 65, 233, 8364, 128512, 10, 43, 45, 32}
=============================================================================
