------------------------------- MODULE MC_Lex -------------------------------
(***************************************************************************)
(* All strings up to MaxLen over an alphabet chosen to reach every branch  *)
(* of the lexer; the lexer machine runs on each, the invariants are        *)
(* checked in every state and one LEX line is printed per string.          *)
(***************************************************************************)
EXTENDS SeedLex, Json

CONSTANTS MaxLen, Alphabet

RECURSIVE Strings(_)
Strings(n) == IF n = 0 THEN {<<>>} ELSE {<<ch>> \o s : ch \in Alphabet, s \in Strings(n - 1)}

MCLexInit == \E n \in 0 .. MaxLen : \E text \in Strings(n) : LexInit(text)
MCLexNext == LexNext

EmitLex == mode \in {"done", "failed"} =>
              PrintT("LEX " \o ToJson([src |-> src, toks |-> toks, err |-> err, msg |-> LexMsg(err)]))

\* the branch alphabet: letter, digit, _, space, tab, CR, LF, ; # " $ \ { } x n + - = ! | & . > < :
\* and a 2-byte and a 4-byte character
FullAlphabet == {97, 49, 95, 32, 9, 13, 10, 59, 35, 34, 36, 92, 123, 125, 120, 110, 43, 45, 61, 33, 124, 38,
                 46, 62, 60, 58, 233, 128512}
\* string-literal alphabet (C15)
StrAlphabet == {34, 36, 92, 123, 125, 120, 110, 114, 97, 52, 65, 233, 8364, 128512, 10}
=============================================================================
