------------------------------ MODULE MC_Scale ------------------------------
(***************************************************************************)
(* Size-parameterised programs.  The other bounded models keep every       *)
(* container, chain, literal and call stack small; an interpreter can      *)
(* behave differently above a size (a fast path for long operator chains,  *)
(* a different sort above a length, a cache for big values).  Every family *)
(* here is one construct at size n (n in Sizes) with a distinguished       *)
(* position k in {1, middle, n}; the semantics is the same machine, so the *)
(* predicted outcome is whatever SeedEval says at that size.               *)
(*   range     a .. b built, mutated through index / op-assign, built      *)
(*             again; slices of it                                         *)
(*   objlit    an object literal of n entries written in descending key    *)
(*             order with a duplicate of key k first / last, against the   *)
(*             same history done by n assignments; overlapping spreads     *)
(*   chain     a left-leaning chain of n operands of one operator with the *)
(*             ill-typed operand at position k (the diagnostic names that  *)
(*             operator); the same chain well-typed (value)                *)
(*   shared    one list of n items reachable at three depths of a printed  *)
(*             value; one object of n keys likewise                        *)
(*   longlist  a literal of n items: destructuring with rest, spread into  *)
(*             a call, slices, concatenation, `for`, ==                    *)
(*   longstr   a literal of n characters of 1 / 2 / 3 bytes: length,       *)
(*             index, slices, concatenation; n interpolation slots         *)
(*   deep      n nested lists (print, ==, index chain); n nested blocks    *)
(*             each shadowing x; recursion depth n ending in a failure (a  *)
(*             stack trace of n + 1 frames)                                *)
(*   manyargs  a function of n parameters called written-out and spread    *)
(*   manyvars  n declarations in one scope read by a closure; a closure    *)
(*             per iteration of an n-iteration loop, all called afterwards *)
(*   manyprops n keys inserted in descending order, op-assigned, iterated  *)
(***************************************************************************)
EXTENDS SeedMC

CONSTANTS Sizes, Families

I(n) == EInt(n)
Nm(s) == EVar(s)
Md(a, m) == a - m * (a \div m)
\* "k00" .. "k99", "v00" ..
Key(i) == <<107, 48 + Md(i \div 10, 10), 48 + Md(i, 10)>> \o (IF i >= 100 THEN <<48 + (i \div 100)>> ELSE <<>>)
Vn(i) == <<118, 48 + Md(i \div 10, 10), 48 + Md(i, 10)>> \o (IF i >= 100 THEN <<48 + (i \div 100)>> ELSE <<>>)
R == Nm(<<114>>)
Q == Nm(<<113>>)
O == Nm(<<111>>)
Xs == Nm(<<120, 115>>)
Sv == Nm(<<115>>)
X == Nm(<<120>>)
F == <<102>>
Kv == Nm(<<107, 118>>)
SLen(e) == ECall(ETProp(e, N_len), <<>>)          \* byte length of a string
\* lists have no length function: cnt(xs) counts by iterating
CNT == <<99, 110, 116>>
CountDef == SFn(CNT, <<Nm(<<122>>)>>, FALSE,
                <<SDecl(Nm(<<110>>), I(0)), SFor(Nm(N_us), Nm(<<122>>), <<SOpAssign(Nm(<<110>>), "+", I(1))>>),
                  SReturn(Nm(<<110>>))>>)
Len0(e) == ECall(Nm(CNT), <<e>>)

Ks(n) == {1, (n + 1) \div 2, n}

\* ---- range
RangeProg(n, k) ==
    <<CountDef, SDecl(R, ERange(I(2), I(2 + n))),
      SAssign(EIndex(R, I(k - 1)), I(-5)), SOpAssign(EIndex(R, I(0)), "+", I(100)),
      SDecl(Q, ERange(I(2), I(2 + n))),
      SPrint(EIndex(Q, I(k - 1))), SPrint(EBin("==", Q, R)), SPrint(EBin("===", Q, R)), SPrint(Len0(Q)),
      SDecl(Xs, ERIndex(R, I(0), ENone)), SAssign(EIndex(Xs, I(k - 1)), I(-6)),
      SPrint(EIndex(ERIndex(R, I(0), ENone), I(k - 1))), SPrint(EIndex(ERIndex(R, ENone, I(n)), I(0))),
      SPrint(Q), SPrint(ERange(I(2), I(2 + n))),
      SFor(EPat(<<Nm(<<105>>), X>>), ERange(I(0), I(n)), <<SAssign(EIndex(Q, Nm(<<105>>)), EBin("*", X, X))>>),
      SPrint(EIndex(ERange(I(0), I(n)), I(k - 1))), SPrint(EIndex(Q, I(k - 1)))>>

\* ---- object literals
LitPairs(n) == [i \in 1 .. n |-> Pair(EStr(Key(n + 1 - i)), I(i))]
ObjLitProg(n, k, where) ==
    LET dup == Pair(EStr(Key(k)), I(-1))
        props == IF where = "first" THEN <<dup>> \o LitPairs(n) ELSE LitPairs(n) \o <<dup>>
        hist == [i \in 1 .. Len(props) |-> SAssign(EIndex(Q, props[i].name), props[i].value)] IN
    <<SDecl(O, EObj(props)), SDecl(Q, EObj(<<>>))>> \o hist
    \o <<SPrint(EIndex(O, EStr(Key(k)))), SPrint(EBin("==", O, Q)), SPrint(O),
         SFor(EPat(<<Kv, Nm(N_us)>>), O, <<SPrint(Kv)>>)>>
SpreadLitProg(n, k) ==
    LET h == (n + 1) \div 2
        a == EObj([i \in 1 .. h + 1 |-> Pair(EStr(Key(h + 2 - i)), I(i))])
        b == EObj([i \in 1 .. h + 1 |-> Pair(EStr(Key(n + 1 - i)), I(100 + i))]) IN
    <<CountDef, SDecl(Nm(<<97>>), a), SDecl(Nm(<<98>>), b),
      SDecl(O, EObj(<<PSpread(Nm(<<97>>)), PSpread(Nm(<<98>>))>>)),
      SDecl(Q, EObj(<<Pair(EStr(Key(k)), I(-1)), PSpread(Nm(<<98>>)), PSpread(Nm(<<97>>))>>)),
      SDecl(R, EObj(<<PSpread(Nm(<<98>>)), PSpread(Nm(<<97>>)), Pair(EStr(Key(k)), I(-1))>>)),
      SPrint(O), SPrint(Q), SPrint(EIndex(R, EStr(Key(k)))), SPrint(EBin("==", Q, R)),
      SDecl(EObj(<<Pair(EStr(Key(k)), X), PCollect(Xs)>>), O), SPrint(X), SPrint(Len0(EListOf(<<Item(I(0))>>))),
      SPrint(Xs)>>

\* ---- operator chains
RECURSIVE ChainSeq(_, _)
ChainSeq(op, es) ==
    IF Len(es) = 1 THEN es[1] ELSE EBin(op, ChainSeq(op, SubSeq(es, 1, Len(es) - 1)), es[Len(es)])
\* operands keep every partial result small (products included)
Small(op, i) == IF op = "*" THEN I(IF Md(i, 7) = 0 THEN 2 ELSE 1) ELSE I(i)
ChainProg(n, k, op) ==
    <<SPrint(I(0)),
      SPrint(ChainSeq(op, [i \in 1 .. n |-> Small(op, i)])),
      SDecl(X, ChainSeq(op, [i \in 1 .. n |-> IF i = k THEN EStr(<<115>>) ELSE Small(op, i)]))>>
StrChainProg(n, k) ==
    <<SPrint(ChainSeq("+", [i \in 1 .. n |-> EStr(<<97 + Md(i, 26)>>)])),
      SPrint(ChainSeq("+", [i \in 1 .. n |-> EList(<<I(i)>>)])),
      SPrint(ChainSeq("&&", [i \in 1 .. n |-> EBool(i # k)])),
      SPrint(ChainSeq("||", [i \in 1 .. n |-> EBool(i = k)])),
      SDecl(X, ChainSeq("+", [i \in 1 .. n |-> IF i = k THEN ENull ELSE EStr(<<97 + Md(i, 26)>>)]))>>

\* ---- one container printed at several depths
SharedProg(n, k) ==
    <<SDecl(R, ERange(I(0), I(n))),
      SPrint(EObj(<<Pair(EStr(<<97>>), R), Pair(EStr(<<98>>), EList(<<R>>)),
                    Pair(EStr(<<99>>), EObj(<<Pair(EStr(<<100>>), EList(<<R, R>>))>>))>>)),
      SDecl(O, EObj([i \in 1 .. n |-> Pair(EStr(Key(i)), I(i))])),
      SPrint(EList(<<O, EList(<<O>>), EObj(<<Pair(EStr(<<111>>), O)>>)>>)),
      SAssign(EIndex(R, I(k - 1)), EList(<<R>>)),
      SPrint(EList(<<EIndex(EIndex(R, I(k - 1)), I(0)), I(1)>>))>>

\* ---- long list literal
LongListProg(n, k) ==
    LET lit == EList([i \in 1 .. n |-> I(i * 3)]) IN
    <<CountDef, SDecl(Xs, lit),
      SDecl(EPatRest(<<Nm(<<97>>), Nm(<<98>>), R>>), Xs), SPrint(Nm(<<98>>)), SPrint(Len0(R)),
      SFn(F, <<Nm(<<112>>), Q>>, TRUE, <<SReturn(EList(<<Nm(<<112>>), Len0(Q), EIndex(Q, I(IF k >= 2 THEN k - 2 ELSE 0))>>))>>),
      SPrint(ECallOf(EVar(F), <<Spread(Xs)>>)),
      SPrint(ERIndex(Xs, I(k - 1), I(n))), SPrint(ERIndex(Xs, ENone, I(k))),
      SPrint(Len0(EBin("+", Xs, Xs))), SPrint(EBin("==", Xs, EListOf(<<Spread(Xs)>>))),
      SPrint(EBin("==", Xs, lit)), SPrint(EBin("===", Xs, ERIndex(Xs, ENone, ENone))),
      SAssign(ERIndex(Xs, I(0), I(k)), ERIndex(Xs, I(n - k), I(n))), SPrint(Xs),
      SDecl(X, I(0)), SFor(EPat(<<Nm(N_us), Q>>), Xs, <<SOpAssign(X, "+", Q)>>), SPrint(X)>>

\* ---- long strings
CharAt(i) == CASE Md(i, 5) = 0 -> <<195, 169>> [] Md(i, 5) = 3 -> <<226, 130, 172>> [] OTHER -> <<97 + Md(i, 26)>>
RECURSIVE StrOf(_)
StrOf(n) == IF n = 0 THEN <<>> ELSE StrOf(n - 1) \o CharAt(n)
LongStrProg(n, k) ==
    <<SDecl(Sv, EStr(StrOf(n))), SPrint(SLen(Sv)), SPrint(Sv),
      SPrint(ERIndex(Sv, I(0), I(k))), SPrint(EBin("==", EBin("+", ERIndex(Sv, ENone, I(k)), ERIndex(Sv, I(k), ENone)), Sv)),
      SPrint(EBin("==", EIndex(Sv, I(k - 1)), ERIndex(Sv, I(k - 1), I(k)))),
      SDecl(X, EStr(<<120, 195, 188>>)),
      SPrint(EIStr(<<Lit(<<>>)>> \o FlattenSeq([i \in 1 .. n |->
                 <<SlotP(0, IF i = k THEN EBin("+", X, Sv) ELSE IF Md(i, 2) = 0 THEN X ELSE EStr(CharAt(i))),
                   Lit(IF Md(i, 3) = 0 THEN CharAt(i) ELSE <<>>)>>]))),
      SPrint(SLen(EBin("+", Sv, Sv)))>>

\* ---- depth
RECURSIVE NestList(_)
NestList(n) == IF n = 0 THEN I(1) ELSE EList(<<NestList(n - 1)>>)
RECURSIVE IdxChain(_, _)
IdxChain(e, n) == IF n = 0 THEN e ELSE IdxChain(EIndex(e, I(0)), n - 1)
RECURSIVE NestBlocks(_, _)
NestBlocks(n, k) ==
    IF n = 0 THEN <<SPrint(X)>>
    ELSE <<SBlock((IF Md(n, 2) = 0 \/ n = k THEN <<SDecl(X, EBin("+", X, I(n)))>> ELSE <<SOpAssign(X, "+", I(1))>>)
                  \o NestBlocks(n - 1, k) \o <<SPrint(X)>>)>>
DeepProg(n, k) ==
    <<SDecl(Xs, NestList(n)), SPrint(Xs), SPrint(EBin("==", Xs, NestList(n))), SPrint(IdxChain(Xs, n)),
      SDecl(X, I(0))>> \o NestBlocks(n, k)
    \o <<SFn(F, <<Nm(<<100>>)>>, FALSE,
             <<SIf(EBin("==", Nm(<<100>>), I(0)), <<SReturn(EBin("+", I(1), EStr(<<>>)))>>),
               SReturn(EBin("+", I(1), ECall(EVar(F), <<EBin("-", Nm(<<100>>), I(1))>>)))>>),
         SPrint(ECall(EVar(F), <<I(n)>>))>>

\* ---- many parameters
ManyArgsProg(n, k) ==
    <<SFn(F, [i \in 1 .. n |-> Nm(Vn(i))], FALSE,
          <<SReturn(EList(<<Nm(Vn(1)), Nm(Vn(k)), Nm(Vn(n))>>))>>),
      SPrint(ECall(EVar(F), [i \in 1 .. n |-> I(i)])),
      SDecl(Xs, ERange(I(10), I(10 + n))), SPrint(ECallOf(EVar(F), <<Spread(Xs)>>)),
      SPrint(ECallOf(EVar(F), <<Spread(ERIndex(Xs, ENone, I(k - 1))), Spread(ERIndex(Xs, I(k - 1), ENone))>>)),
      SExpr(ECall(EVar(F), [i \in 1 .. n - 1 |-> I(i)]))>>

\* ---- many names, many closures
ManyVarsProg(n, k) ==
    [i \in 1 .. n |-> SDecl(Nm(Vn(i)), I(i))]
    \o <<SDecl(Q, EFunc(<<>>, FALSE, <<SReturn(EList(<<Nm(Vn(1)), Nm(Vn(k)), Nm(Vn(n))>>))>>)),
         SAssign(Nm(Vn(k)), I(-1)), SPrint(ECall(Q, <<>>)),
         SDecl(Xs, EList(<<>>)),
         SFor(EPat(<<Nm(N_us), X>>), ERange(I(0), I(n)),
              <<SDecl(R, EBin("*", X, I(2))),
                SOpAssign(Xs, "+", EList(<<EFunc(<<>>, FALSE, <<SOpAssign(R, "+", I(1)), SReturn(R)>>)>>))>>),
         SPrint(ECall(EIndex(Xs, I(k - 1)), <<>>)), SPrint(ECall(EIndex(Xs, I(k - 1)), <<>>)),
         SPrint(ECall(EIndex(Xs, I(n - 1)), <<>>)), SPrint(ECall(EIndex(Xs, I(0)), <<>>)),
         SDecl(Nm(Vn(k)), I(0))>>

\* ---- many properties
ManyPropsProg(n, k) ==
    <<SDecl(O, EObj(<<>>))>>
    \o [i \in 1 .. n |-> SAssign(EIndex(O, EStr(Key(n + 1 - i))), I(i))]
    \o <<SOpAssign(EIndex(O, EStr(Key(k))), "*", I(7)), SPrint(EIndex(O, EStr(Key(k)))),
         SFor(Kv, O, <<SPrint(Kv)>>),
         SDecl(Q, EObj(<<PSpread(O)>>)), SAssign(EIndex(Q, EStr(Key(k))), I(0)),
         SPrint(EIndex(O, EStr(Key(k)))), SPrint(EBin("==", O, Q)),
         SPrint(EIndex(O, EStr(Key(n + 1))))>>

\* parameter tuples <<family, n, k, variant>>
ScaleParams ==
    UNION { UNION { { <<"range", n, k, "-">>, <<"objlit", n, k, "first">>, <<"objlit", n, k, "last">>,
                      <<"spreadlit", n, k, "-">>, <<"chain", n, k, "+">>, <<"chain", n, k, "-">>, <<"chain", n, k, "*">>,
                      <<"strchain", n, k, "-">>, <<"shared", n, k, "-">>, <<"longlist", n, k, "-">>,
                      <<"longstr", n, k, "-">>, <<"deep", n, k, "-">>, <<"manyargs", n, k, "-">>,
                      <<"manyvars", n, k, "-">>, <<"manyprops", n, k, "-">> } : k \in Ks(n) } : n \in Sizes }
\* (TLC's own recursion limits the nesting depth it can evaluate: `deep` stops at 33)
SelectedParams == {p \in ScaleParams : p[1] \in Families /\ (p[1] = "deep" => p[2] <= 33)}

ScaleProgOf(p) ==
    CASE p[1] = "range"     -> RangeProg(p[2], p[3])
      [] p[1] = "objlit"    -> ObjLitProg(p[2], p[3], p[4])
      [] p[1] = "spreadlit" -> SpreadLitProg(p[2], p[3])
      [] p[1] = "chain"     -> ChainProg(p[2], p[3], p[4])
      [] p[1] = "strchain"  -> StrChainProg(p[2], p[3])
      [] p[1] = "shared"    -> SharedProg(p[2], p[3])
      [] p[1] = "longlist"  -> LongListProg(p[2], p[3])
      [] p[1] = "longstr"   -> LongStrProg(p[2], p[3])
      [] p[1] = "deep"      -> DeepProg(p[2], p[3])
      [] p[1] = "manyargs"  -> ManyArgsProg(p[2], p[3])
      [] p[1] = "manyvars"  -> ManyVarsProg(p[2], p[3])
      [] p[1] = "manyprops" -> ManyPropsProg(p[2], p[3])

-----------------------------------------------------------------------------
Finished == status.k # "running"
\* laws that do not depend on the size
ScaleLaws ==
    Finished =>
        /\ pi[1] = "range" =>
              /\ status.k = "done" /\ out[1] = DecBytes(pi[3] + 1) /\ out[2] = T_false /\ out[3] = T_false
              /\ out[4] = DecBytes(pi[2])
              /\ out[5] = (IF pi[3] = 1 THEN DecBytes(95) ELSE DecBytes(-5))
              /\ out[9] = DecBytes(pi[3] - 1) /\ out[10] = DecBytes((pi[3] - 1) * (pi[3] - 1))
        /\ pi[1] = "objlit" =>
              /\ status.k = "done" /\ out[2] = T_true
              /\ out[1] = (IF pi[4] = "last" THEN DecBytes(-1) ELSE DecBytes(pi[2] + 1 - pi[3]))
        /\ pi[1] = "chain" => status.k = "failed" /\ Len(out) = 2
        /\ pi[1] = "deep" => status.k = "failed" /\ Len(status.diag.trace) = pi[2] + 1
        /\ pi[1] = "manyargs" => status.k = "failed" /\ status.diag.kind = "ArgNumMismatch" /\ Len(out) = 3
        /\ pi[1] = "manyprops" => status.k = "failed" /\ out[Len(out)] = T_false
=============================================================================
