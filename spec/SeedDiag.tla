------------------------------ MODULE SeedDiag ------------------------------
(***************************************************************************)
(* Diagnostics: every error kind of the evaluator with its user-facing     *)
(* message (as a sequence of pieces that are concatenated to text), and    *)
(* the rule that turns the continuation at the point of failure into the   *)
(* located first line, the `in '<function>':` prefix and the stack trace.  *)
(*                                                                         *)
(*   <path>:<line>:<col>: [in '<f>': ]<message>                            *)
(*   Stacktrace:                                                           *)
(*     <path>:<line>:<col>: in '<caller>'     one per active call,         *)
(*                                            innermost first, to <root>   *)
(*                                                                         *)
(* A diagnostic cannot be constructed without a position: `Located`.       *)
(***************************************************************************)
EXTENDS SeedOps

FnRoot      == [k |-> "root", b |-> <<>>]
FnNamed(b)  == [k |-> "named", b |-> b]
FnAnon      == [k |-> "anon", b |-> <<>>]
FnOfName(nm) == IF nm.some THEN FnNamed(nm.b) ELSE FnAnon

\* Position of an interpolation slot: derived from the literal's position and
\* the slot's character offset in the decoded literal (column + offset + 4).
\* the position of an interpolation slot: the idx-th part of the literal at `loc`.  It is where the slot's
\* expression starts in the source text (after `${`); a tree that came from the real parser carries the
\* position of the slot (`sloc`), a generated tree is placed by the harness.
SlotLoc(loc, part, idx) ==
    [slot |-> TRUE, base |-> loc, off |-> part.off, idx |-> idx,
     sloc |-> IF "sloc" \in DOMAIN part THEN part.sloc ELSE <<>>]

\* The position `(0, 0)` the interpreter gives the bindings it creates itself
\* (`print`, `this`).
Loc0 == <<0, 0>>

-----------------------------------------------------------------------------
(* Context walk.  `ctx` is the continuation (bottom first).  Call frames   *)
(* (`f = "call"`) mark active user-function calls; interpolation frames    *)
(* (`f = "interp"`) mark a slot being evaluated, whose position is         *)
(* prepended to any error raised inside it.                                *)

CallIdxBelow(ctx, i) == {j \in 1 .. (i - 1) : ctx[j].f = "call"}
FnAt(ctx, i) ==          \* the function whose body the frame at index i belongs to
    LET js == CallIdxBelow(ctx, i) IN
    IF js = {} THEN FnRoot ELSE ctx[Max(js)].fn

InterpIdx(ctx) == {j \in 1 .. Len(ctx) : ctx[j].f = "interp"}
CallIdx(ctx)   == {j \in 1 .. Len(ctx) : ctx[j].f = "call"}

MkDiag(ctx, kind, loc, msg) ==
    LET inner  == [loc |-> loc, fn |-> FnAt(ctx, Len(ctx) + 1)]
        ii     == SetToSortSeq(InterpIdx(ctx), <)
        outer  == [n \in 1 .. Len(ii) |->
                     [loc |-> SlotLoc(ctx[ii[n]].e.loc, ctx[ii[n]].e.parts[ctx[ii[n]].i], ctx[ii[n]].i),
                      fn  |-> FnAt(ctx, ii[n])]]
        ci     == SetToSortSeq(CallIdx(ctx), >)         \* innermost first
        trace  == [n \in 1 .. Len(ci) |-> [loc |-> ctx[ci[n]].loc, fn |-> FnAt(ctx, ci[n])]]
    IN  [kind |-> kind, locs |-> outer \o <<inner>>, msg |-> msg, trace |-> trace]

Located(d) == Len(d.locs) >= 1

-----------------------------------------------------------------------------
(* Message templates (src/eval/error.rs `display` strings, user-facing).   *)

M_Undefined(name) == <<PS("'"), PB(name), PS("' is not defined")>>
M_AlreadyInBinding(name) == <<PS("'"), PB(name), PS("' is bound multiple times in this binding")>>
M_AlreadyInScope(name, prev) ==
    <<PS("'"), PB(name), PS("' is already defined in the current scope at ["), PL(prev), PS("]")>>
M_InvalidBindTarget(descr) == <<PS("cannot bind to "), PS(descr)>>
M_IncorrectType(descr, exp, v) ==
    <<PS(descr), PS(" must be '"), PS(exp), PS("', got '"), PS(TypeName(v)), PS("'")>>
M_StringConstructionFailed(descr) == <<PS("couldn't create "), PS(descr), PS(" string: ")>>   \* + opaque tail
M_CannotCallNonFunc(v) == <<PS("can't call '"), PS(TypeName(v)), PS("' as a function")>>
M_ArgNumMismatch(need, got) == <<PS("expected "), PN(need), PS(" arguments, got "), PN(got)>>
M_TooFewArgs(min, got) == <<PS("expected at least "), PN(min), PS(" arguments, got "), PN(got)>>
M_BreakOutsideLoop == <<PS("'break' can't be used outside of a loop")>>
M_ContinueOutsideLoop == <<PS("'continue' can't be used outside of a loop")>>
M_ReturnOutsideFunction == <<PS("'return' can't be used outside of a function")>>
M_ForIterNotIterable == <<PS("'for' iterator must be a 'list', 'object' or 'string'")>>
M_ValueNotIndexable == <<PS("only 'list's, 'object's or 'string's can be indexed")>>
M_ValueNotIndexAssignable == <<PS("only 'list's or 'object's can update indices")>>
M_ValueNotRangeIndexAssignable == <<PS("only 'list's can update range indices")>>
M_AssignToTypeProp == <<PS("type properties cannot be assigned to")>>
M_OutOfStringBounds(i) == <<PS("index '"), PN(i), PS("' is outside the string bounds")>>
M_OutOfListBounds(i) == <<PS("index '"), PN(i), PS("' is outside the list bounds")>>
M_RangeOutOfStringBounds(a, b) == <<PS("range ["), PN(a), PS(":"), PN(b), PS("] is outside the string bounds")>>
M_RangeOutOfListBounds(a, b) == <<PS("range ["), PN(a), PS(":"), PN(b), PS("] is outside the list bounds")>>
M_RangeStartOutOfListBounds(a, n) ==
    <<PS("range start ("), PN(a), PS(") is greater than list length ("), PN(n), PS(")")>>
M_RangeStartNotBeforeEnd(a, b) ==
    <<PS("range end ("), PN(b), PS(") must be greater than range start ("), PN(a), PS(")")>>
M_RangeEndOutOfListBounds(b, n) ==
    <<PS("range end ("), PN(b), PS(") is greater than list length ("), PN(n), PS(")")>>
M_RangeIndexItemMismatch(rangeLen, rhsLen) ==
    <<PS("cannot bind "), PN(rhsLen), PS(" item(s) to "), PN(rangeLen), PS(" index(s)")>>
M_ValueNotRangeIndexable == <<PS("only 'list's or 'string's can be range-indexed")>>
M_NegativeIndex == <<PS("index can't be negative")>>
M_ListCollectOutsideDestructure == <<PS("cannot collect 'list' items outside a destructure")>>
M_ObjectCollectOutsideDestructure == <<PS("cannot collect 'object' items outside a destructure")>>
M_ObjectCollectIsNotLast == <<PS("only the last item in the destructure can collect")>>
M_SpreadNonListInList(v) == <<PS("only lists can be spread in lists, got '"), PS(TypeName(v)), PS("'")>>
M_SpreadNonObjectInObject(v) == <<PS("only objects can be spread in objects, got '"), PS(TypeName(v)), PS("'")>>
M_RangeIndexAssignOnNonIndexable(v) ==
    <<PS("only 'list's or 'string's can be assigned to range indexes, got '"), PS(TypeName(v)), PS("'")>>
M_ObjectDestructureOnNonObject(v) ==
    <<PS("only objects can be destructured into objects, got '"), PS(TypeName(v)), PS("'")>>
M_SpreadOnObjectDestructure == <<PS("can't use spread operator in object destructuring")>>
M_ListDestructureOnNonList(v) ==
    <<PS("only lists can be destructured into lists, got '"), PS(TypeName(v)), PS("'")>>
M_ListDestructureItemMismatch(lhsLen, rhsLen) ==
    <<PS("cannot bind "), PN(rhsLen), PS(" item(s) to "), PN(lhsLen), PS(" variable name(s)")>>
M_SpreadInListDestructure(i) ==
    <<PS("cannot use spread operator (at index "), PN(i), PS(") of list destructure")>>
M_PropNotFound(name) == <<PS("object doesn't contain property '"), PB(name), PS("'")>>
M_TypeFunctionNotFound(name, v) ==
    <<PS("there is no type function '"), PB(name), PS("' for '"), PS(TypeName(v)), PS("'")>>
M_TypeFunctionOnNull == <<PS("cannot access type function on 'null'")>>
M_PropAccessOnNonObject(v) ==
    <<PS("properties can only be accessed on objects, got '"), PS(TypeName(v)), PS("'")>>
M_InterpolatedValueNotString(v) ==
    <<PS("interpolated values can only be strings, got '"), PS(TypeName(v)), PS("'")>>
M_InterpolateStringParseFailed == <<PS("couldn't parse interpolation slot: ")>>       \* + opaque tail
M_OpOnRangeIndex == <<PS("cannot perform this operation on a range-index")>>
M_OpOnObjectDestructure == <<PS("cannot perform this operation on an object destructure")>>
M_OpOnListDestructure == <<PS("cannot perform this operation on an list destructure")>>
M_ObjectPropShorthandNotVar == <<PS("object property name isn't a variable")>>
M_DupParamName(name, prev) == <<PS("'"), PB(name), PS("' is already declared at ["), PL(prev), PS("]")>>
M_SpreadInParamList == <<PS("can't use spread operator in parameter list")>>
M_BuiltinArgs(fname, exp, got) ==
    <<PS("`"), PS(fname), PS("` only takes "), PN(exp),
      PS(IF exp = 1 THEN " argument (got " ELSE " arguments (got "), PN(got), PS(")")>>
M_Dev(text) == <<PS("dev error: "), PS(text)>>
M_PrintUtf8 == <<PS("couldn't convert error message to UTF-8: ")>>                   \* + opaque tail
M_ThisUtf8 == <<PS("couldn't convert `this` string to UTF-8: ")>>                     \* + opaque tail
M_PrintCyclic == <<PS("can't print a value that contains itself")>>

\* Kinds whose message ends in text produced by the Rust standard library or
\* the parser generator; compared up to that tail.
OpaqueTailKinds == {"StringConstructionFailed", "InterpolateStringParseFailed",
                    "PrintUtf8", "ThisUtf8"}

BindTargetDescr(t) ==
    CASE t = "null"   -> "`null`"
      [] t = "bool"   -> "a boolean literal"
      [] t = "int"    -> "an integer literal"
      [] t = "str"    -> "a string literal"
      [] t = "istr"   -> "a string literal"
      [] t = "binop"  -> "a binary operation"
      [] t = "range"  -> "a range operation"
      [] t = "func"   -> "an anonymous function"
      [] t = "call"   -> "a function call"
      [] t = "index"  -> "an index operation"
      [] t = "rindex" -> "a range index operation"
      [] t = "prop"   -> "a property access operation"

=============================================================================
