------------------------------ MODULE SeedDiag ------------------------------
(***************************************************************************)
(* Diagnostics: every error kind of the evaluator with its user-facing     *)
(* message (as a sequence of pieces that are concatenated to text), and    *)
(* the rule that turns the continuation at the point of failure into the   *)
(* located first line, the `in '<function>':` prefix and the stack trace.  *)
(*                                                                         *)
(*   <path>:<line>:<col>: [in '<f>': ]<message>                            *)
(*   Stacktrace:                                                           *)
(*     <path>:<line>:<col>: in '<caller>'     one per active call,         *)
(*                                            innermost first, to <root>   *)
(*                                                                         *)
(* A diagnostic cannot be constructed without a position: `Located`.       *)
(***************************************************************************)
EXTENDS SeedOps

FnRoot      == [k |-> "root", b |-> <<>>]
FnNamed(b)  == [k |-> "named", b |-> b]
FnAnon      == [k |-> "anon", b |-> <<>>]
FnOfName(nm) == IF nm.some THEN FnNamed(nm.b) ELSE FnAnon

\* Position of an interpolation slot: derived from the literal's position and
\* the slot's character offset in the decoded literal (column + offset + 4).
SlotLoc(loc, off, idx) == [slot |-> TRUE, base |-> loc, off |-> off, idx |-> idx]

\* The position `(0, 0)` the interpreter gives the bindings it creates itself
\* (`print`, `this`).
Loc0 == <<0, 0>>

-----------------------------------------------------------------------------
(* Context walk.  `ctx` is the continuation (bottom first).  Call frames   *)
(* (`f = "call"`) mark active user-function calls; interpolation frames    *)
(* (`f = "interp"`) mark a slot being evaluated, whose position is         *)
(* prepended to any error raised inside it.                                *)

CallIdxBelow(ctx, i) == {j \in 1 .. (i - 1) : ctx[j].f = "call"}
FnAt(ctx, i) ==          \* the function whose body the frame at index i belongs to
    LET js == CallIdxBelow(ctx, i) IN
    IF js = {} THEN FnRoot ELSE ctx[Max(js)].fn

InterpIdx(ctx) == {j \in 1 .. Len(ctx) : ctx[j].f = "interp"}
CallIdx(ctx)   == {j \in 1 .. Len(ctx) : ctx[j].f = "call"}

MkDiag(ctx, kind, loc, msg) ==
    LET inner  == [loc |-> loc, fn |-> FnAt(ctx, Len(ctx) + 1)]
        ii     == SetToSortSeq(InterpIdx(ctx), <)
        outer  == [n \in 1 .. Len(ii) |->
                     [loc |-> SlotLoc(ctx[ii[n]].e.loc, ctx[ii[n]].e.parts[ctx[ii[n]].i].off, ctx[ii[n]].i),
                      fn  |-> FnAt(ctx, ii[n])]]
        ci     == SetToSortSeq(CallIdx(ctx), >)         \* innermost first
        trace  == [n \in 1 .. Len(ci) |-> [loc |-> ctx[ci[n]].loc, fn |-> FnAt(ctx, ci[n])]]
    IN  [kind |-> kind, locs |-> outer \o <<inner>>, msg |-> msg, trace |-> trace]

Located(d) == Len(d.locs) >= 1

-----------------------------------------------------------------------------
(* Message templates (src/eval/error.rs `display` strings, user-facing).   *)

M_Undefined(name) == <<S("'"), Bt(name), S("' is not defined")>>
M_AlreadyInBinding(name) == <<S("'"), Bt(name), S("' is bound multiple times in this binding")>>
M_AlreadyInScope(name, prev) ==
    <<S("'"), Bt(name), S("' is already defined in the current scope at ["), L(prev), S("]")>>
M_InvalidBindTarget(descr) == <<S("cannot bind to "), S(descr)>>
M_IncorrectType(descr, exp, v) ==
    <<S(descr), S(" must be '"), S(exp), S("', got '"), S(TypeName(v)), S("'")>>
M_StringConstructionFailed(descr) == <<S("couldn't create "), S(descr), S(" string: ")>>   \* + opaque tail
M_CannotCallNonFunc(v) == <<S("can't call '"), S(TypeName(v)), S("' as a function")>>
M_ArgNumMismatch(need, got) == <<S("expected "), N(need), S(" arguments, got "), N(got)>>
M_TooFewArgs(min, got) == <<S("expected at least "), N(min), S(" arguments, got "), N(got)>>
M_BreakOutsideLoop == <<S("'break' can't be used outside of a loop")>>
M_ContinueOutsideLoop == <<S("'continue' can't be used outside of a loop")>>
M_ReturnOutsideFunction == <<S("'return' can't be used outside of a function")>>
M_ForIterNotIterable == <<S("'for' iterator must be a 'list', 'object' or 'string'")>>
M_ValueNotIndexable == <<S("only 'list's, 'object's or 'string's can be indexed")>>
M_ValueNotIndexAssignable == <<S("only 'list's or 'object's can update indices")>>
M_ValueNotRangeIndexAssignable == <<S("only 'list's can update range indices")>>
M_AssignToTypeProp == <<S("type properties cannot be assigned to")>>
M_OutOfStringBounds(i) == <<S("index '"), N(i), S("' is outside the string bounds")>>
M_OutOfListBounds(i) == <<S("index '"), N(i), S("' is outside the list bounds")>>
M_RangeOutOfStringBounds(a, b) == <<S("range ["), N(a), S(":"), N(b), S("] is outside the string bounds")>>
M_RangeOutOfListBounds(a, b) == <<S("range ["), N(a), S(":"), N(b), S("] is outside the list bounds")>>
M_RangeStartOutOfListBounds(a, n) ==
    <<S("range start ("), N(a), S(") is greater than list length ("), N(n), S(")")>>
M_RangeStartNotBeforeEnd(a, b) ==
    <<S("range end ("), N(b), S(") must be greater than range start ("), N(a), S(")")>>
M_RangeEndOutOfListBounds(b, n) ==
    <<S("range end ("), N(b), S(") is greater than list length ("), N(n), S(")")>>
M_RangeIndexItemMismatch(rangeLen, rhsLen) ==
    <<S("cannot bind "), N(rhsLen), S(" item(s) to "), N(rangeLen), S(" index(s)")>>
M_ValueNotRangeIndexable == <<S("only 'list's or 'string's can be range-indexed")>>
M_NegativeIndex == <<S("index can't be negative")>>
M_ListCollectOutsideDestructure == <<S("cannot collect 'list' items outside a destructure")>>
M_ObjectCollectOutsideDestructure == <<S("cannot collect 'object' items outside a destructure")>>
M_ObjectCollectIsNotLast == <<S("only the last item in the destructure can collect")>>
M_SpreadNonListInList(v) == <<S("only lists can be spread in lists, got '"), S(TypeName(v)), S("'")>>
M_SpreadNonObjectInObject(v) == <<S("only objects can be spread in objects, got '"), S(TypeName(v)), S("'")>>
M_RangeIndexAssignOnNonIndexable(v) ==
    <<S("only 'list's or 'string's can be assigned to range indexes, got '"), S(TypeName(v)), S("'")>>
M_ObjectDestructureOnNonObject(v) ==
    <<S("only objects can be destructured into objects, got '"), S(TypeName(v)), S("'")>>
M_SpreadOnObjectDestructure == <<S("can't use spread operator in object destructuring")>>
M_ListDestructureOnNonList(v) ==
    <<S("only lists can be destructured into lists, got '"), S(TypeName(v)), S("'")>>
M_ListDestructureItemMismatch(lhsLen, rhsLen) ==
    <<S("cannot bind "), N(rhsLen), S(" item(s) to "), N(lhsLen), S(" variable name(s)")>>
M_SpreadInListDestructure(i) ==
    <<S("cannot use spread operator (at index "), N(i), S(") of list destructure")>>
M_PropNotFound(name) == <<S("object doesn't contain property '"), Bt(name), S("'")>>
M_TypeFunctionNotFound(name, v) ==
    <<S("there is no type function '"), Bt(name), S("' for '"), S(TypeName(v)), S("'")>>
M_TypeFunctionOnNull == <<S("cannot access type function on 'null'")>>
M_PropAccessOnNonObject(v) ==
    <<S("properties can only be accessed on objects, got '"), S(TypeName(v)), S("'")>>
M_InterpolatedValueNotString(v) ==
    <<S("interpolated values can only be strings, got '"), S(TypeName(v)), S("'")>>
M_InterpolateStringParseFailed == <<S("couldn't parse interpolation slot: ")>>       \* + opaque tail
M_OpOnRangeIndex == <<S("cannot perform this operation on a range-index")>>
M_OpOnObjectDestructure == <<S("cannot perform this operation on an object destructure")>>
M_OpOnListDestructure == <<S("cannot perform this operation on an list destructure")>>
M_ObjectPropShorthandNotVar == <<S("object property name isn't a variable")>>
M_DupParamName(name, prev) == <<S("'"), Bt(name), S("' is already declared at ["), L(prev), S("]")>>
M_SpreadInParamList == <<S("can't use spread operator in parameter list")>>
M_BuiltinArgs(fname, exp, got) ==
    <<S("`"), S(fname), S("` only takes "), N(exp),
      S(IF exp = 1 THEN " argument (got " ELSE " arguments (got "), N(got), S(")")>>
M_Dev(text) == <<S("dev error: "), S(text)>>
M_PrintUtf8 == <<S("couldn't convert error message to UTF-8: ")>>                   \* + opaque tail
M_ThisUtf8 == <<S("couldn't convert `this` string to UTF-8: ")>>                     \* + opaque tail
M_PrintCyclic == <<S("can't print a value that contains itself")>>

\* Kinds whose message ends in text produced by the Rust standard library or
\* the parser generator; compared up to that tail.
OpaqueTailKinds == {"StringConstructionFailed", "InterpolateStringParseFailed",
                    "PrintUtf8", "ThisUtf8"}

BindTargetDescr(t) ==
    CASE t = "null"   -> "`null`"
      [] t = "bool"   -> "a boolean literal"
      [] t = "int"    -> "an integer literal"
      [] t = "str"    -> "a string literal"
      [] t = "istr"   -> "a string literal"
      [] t = "binop"  -> "a binary operation"
      [] t = "range"  -> "a range operation"
      [] t = "func"   -> "an anonymous function"
      [] t = "call"   -> "a function call"
      [] t = "index"  -> "an index operation"
      [] t = "rindex" -> "a range index operation"
      [] t = "prop"   -> "a property access operation"

=============================================================================
