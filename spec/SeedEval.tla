------------------------------ MODULE SeedEval ------------------------------
(***************************************************************************)
(* The evaluator of the Seed language as an abstract machine.              *)
(*                                                                         *)
(* State                                                                   *)
(*   c       the control: what is being done right now                     *)
(*             E  evaluate an expression           V  a slot was produced  *)
(*             S  execute a statement              X  a statement list     *)
(*             B  bind a pattern to a slot            ended with an escape *)
(*             D  a binding completed                 (none/break/continue/*)
(*             I/O/IF/F/P/R/BO/BL  iteration points   return)              *)
(*                of multi-part constructs                                 *)
(*   K       the continuation: a stack of frames, bottom first             *)
(*   env     the current scope chain (scope ids, innermost last)           *)
(*   scopes  scope id -> [vars : name -> [s : slot, loc : declaration]]    *)
(*   heap    cell id -> list | object | function cell                      *)
(*   out     the texts written by `print`, in order                        *)
(*   status  running | done | failed(diagnostic)                           *)
(*   steps   number of transitions taken (fuel for bounded exploration)    *)
(*                                                                         *)
(* One action per evaluator decision.  The order in which sub-expressions  *)
(* are evaluated, and which check comes first, is part of the observable   *)
(* behaviour (side effects, which error is reported) and is fixed here as  *)
(* in DESIGN.md appendix A.  Where docs/features.md and the properties     *)
(* decide a question, the machine follows them, not the code:              *)
(*   * a bare block forwards break/continue/return          (X_BlockStmt)  *)
(*   * `xs[a:] = ys` defaults the end to the length of xs   (R_End)        *)
(*   * `%` reports a zero divisor, and is exact otherwise   (SeedOps)      *)
(*   * every failure has a position                         (MkDiag)       *)
(***************************************************************************)
EXTENDS SeedDiag

VARIABLES c, K, env, scopes, heap, out, status, steps

vars == <<c, K, env, scopes, heap, out, status, steps>>

Running == [k |-> "running"]
Done    == [k |-> "done"]
Failed(d) == [k |-> "failed", diag |-> d]

\* Control constructors
CE(e)  == [m |-> "E", e |-> e]
CV(s)  == [m |-> "V", s |-> s]
St(s) == [m |-> "S", st |-> s]
CX(x)  == [m |-> "X", x |-> x]
XNone == [k |-> "none"]
XBreak(loc)     == [k |-> "break", loc |-> loc]
XContinue(loc)  == [k |-> "continue", loc |-> loc]
XReturn(s, loc) == [k |-> "return", s |-> s, loc |-> loc]
NoOp == [some |-> FALSE, op |-> "", loc |-> <<>>]
SomeOp(op, loc) == [some |-> TRUE, op |-> op, loc |-> loc]
CB(lhs, rhs, op, bt, names) ==
    [m |-> "B", lhs |-> lhs, rhs |-> rhs, op |-> op, bt |-> bt, names |-> names]
CD(names) == [m |-> "D", names |-> names]

Top     == K[Len(K)]
Pop     == SubSeq(K, 1, Len(K) - 1)
Push(f) == Append(K, f)
Swap(f) == Append(Pop, f)
HasTop(tag) == Len(K) > 0 /\ Top.f = tag

\* State update shorthands
Upd(c2, k2, env2, scopes2, heap2, out2) ==
    /\ c' = c2 /\ K' = k2 /\ env' = env2 /\ scopes' = scopes2
    /\ heap' = heap2 /\ out' = out2 /\ status' = status /\ steps' = steps + 1
Go(c2, k2)          == Upd(c2, k2, env, scopes, heap, out)
GoH(c2, k2, heap2)  == Upd(c2, k2, env, scopes, heap2, out)
FailIn(ctx, kind, loc, msg) ==
    /\ status' = Failed(MkDiag(ctx, kind, loc, msg))
    /\ steps' = steps + 1
    /\ UNCHANGED <<c, K, env, scopes, heap, out>>
Fail(kind, loc, msg) == FailIn(K, kind, loc, msg)

NewId(seq) == Len(seq) + 1

-----------------------------------------------------------------------------
(* Scopes *)

EmptyScope == [vars |-> <<>>]
InnerScope == env[Len(env)]

RECURSIVE FindScope(_, _, _)
FindScope(chain, i, name) ==       \* innermost scope on the chain that has `name`, 0 if none
    IF i = 0 THEN 0
    ELSE IF name \in DOMAIN scopes[chain[i]].vars THEN chain[i]
    ELSE FindScope(chain, i - 1, name)

Lookup(name) == FindScope(env, Len(env), name)
Declared(sid, name, slot, loc) ==
    [scopes EXCEPT ![sid].vars = (name :> [s |-> slot, loc |-> loc]) @@ @]
Assigned(sid, name, slot) == [scopes EXCEPT ![sid].vars[name].s = slot]

-----------------------------------------------------------------------------
(* Small helpers *)

IdxNone    == [some |-> FALSE, n |-> 0]
IdxSome(n) == [some |-> TRUE, n |-> n]

StartSeq(ss, kk) ==        \* control + continuation for "run the statements ss"
    IF Len(ss) = 0 THEN [c |-> CX(XNone), k |-> kk]
    ELSE [c |-> St(ss[1]), k |-> Append(kk, [f |-> "seq", ss |-> ss, i |-> 1])]

\* Apply an (optional) operator to the current content of a target and the
\* right-hand side.  Returns [r = "val" | "alloc" | "err"] as ApplyOp does;
\* without an operator the right-hand side itself is stored, provenance kept.
Combine(op, cur, rhs) ==
    IF op.some THEN ApplyOp(op.op, cur.v, rhs.v, heap) ELSE [r |-> "keep"]

-----------------------------------------------------------------------------
(* Expressions *)

E_Null == /\ c.m = "E" /\ c.e.t = "null" /\ Go(CV(Slot(VNull)), K)
E_Bool == /\ c.m = "E" /\ c.e.t = "bool" /\ Go(CV(Slot(VBool(c.e.b))), K)
E_Int  == /\ c.m = "E" /\ c.e.t = "int"  /\ Go(CV(Slot(VInt(c.e.n))), K)
E_Str  == /\ c.m = "E" /\ c.e.t = "str"  /\ Go(CV(Slot(VStr(c.e.s))), K)
E_IStr == /\ c.m = "E" /\ c.e.t = "istr"
          /\ Go([m |-> "I", e |-> c.e, i |-> 1, acc |-> <<>>], K)

E_Var ==
    /\ c.m = "E" /\ c.e.t = "var"
    /\ LET sid == Lookup(c.e.name) IN
       IF sid = 0 THEN Fail("Undefined", c.e.loc, M_Undefined(c.e.name))
       ELSE Go(CV(scopes[sid].vars[c.e.name].s), K)

E_BinOp == /\ c.m = "E" /\ c.e.t = "binop"
           /\ Go(CE(c.e.l), Push([f |-> "binl", e |-> c.e]))

V_BinL == /\ c.m = "V" /\ HasTop("binl")
          /\ Go(CE(Top.e.r), Swap([f |-> "binr", e |-> Top.e, lv |-> c.s.v]))

\* The operator is applied to the two operand values; its result carries no
\* provenance (OperatorDropsSource).
V_BinR ==
    /\ c.m = "V" /\ HasTop("binr")
    /\ LET e == Top.e
           r == ApplyOp(e.op, Top.lv, c.s.v, heap) IN
       CASE r.r = "val"   -> Go(CV(Slot(r.v)), Pop)
         [] r.r = "alloc" -> GoH(CV(Slot(VList(NewId(heap)))), Pop, Append(heap, r.cell))
         [] r.r = "err"   -> FailIn(Pop, r.kind, e.oploc, r.msg)

\* List literals and argument lists share the item loop: items are evaluated
\* left to right; a spread item must be a list and contributes its slots.
ItemsStep(e, items, i, acc, purpose, kk) ==
    IF i <= Len(items)
    THEN Go(CE(items[i].e),
            Append(kk, [f |-> "items", e |-> e, i |-> i, acc |-> acc, purpose |-> purpose]))
    ELSE IF purpose = "list"
    THEN GoH(CV(Slot(VList(NewId(heap)))), kk, Append(heap, CList(acc)))
    ELSE Go(CE(e.f), Append(kk, [f |-> "callee", e |-> e, args |-> acc]))

E_List ==
    /\ c.m = "E" /\ c.e.t = "list"
    /\ IF c.e.collect
       THEN Fail("ListCollectOutsideDestructure", c.e.loc, M_ListCollectOutsideDestructure)
       ELSE ItemsStep(c.e, c.e.items, 1, <<>>, "list", K)

E_Call == /\ c.m = "E" /\ c.e.t = "call"
          /\ ItemsStep(c.e, c.e.args, 1, <<>>, "args", K)

V_Items ==
    /\ c.m = "V" /\ HasTop("items")
    /\ LET fr    == Top
           items == IF fr.purpose = "list" THEN fr.e.items ELSE fr.e.args
           item  == items[fr.i] IN
       IF item.spread
       THEN IF c.s.v.k = "list"
            THEN ItemsStep(fr.e, items, fr.i + 1, fr.acc \o heap[c.s.v.id].items, fr.purpose, Pop)
            ELSE FailIn(Pop, "SpreadNonListInList", item.e.loc, M_SpreadNonListInList(c.s.v))
       ELSE ItemsStep(fr.e, items, fr.i + 1, Append(fr.acc, c.s), fr.purpose, Pop)

\* Index read: the indexed value first, then (if it is indexable) the index.
E_Index == /\ c.m = "E" /\ c.e.t = "index"
           /\ Go(CE(c.e.e), Push([f |-> "idxsrc", e |-> c.e]))

V_IdxSrc ==
    /\ c.m = "V" /\ HasTop("idxsrc")
    /\ IF c.s.v.k \in {"string", "list", "object"}
       THEN Go(CE(Top.e.i), Swap([f |-> "idxloc", e |-> Top.e, src |-> c.s]))
       ELSE FailIn(Pop, "ValueNotIndexable", Top.e.loc, M_ValueNotIndexable)

V_IdxLoc ==
    /\ c.m = "V" /\ HasTop("idxloc")
    /\ LET e == Top.e
           src == Top.src.v
           iv == c.s.v IN
       IF src.k = "object" THEN
           IF iv.k # "string"
           THEN FailIn(Pop, "IncorrectType", e.i.loc, M_IncorrectType("property", "string", iv))
           ELSE IF ~ValidUtf8(iv.s)
           THEN FailIn(Pop, "StringConstructionFailed", e.i.loc, M_StringConstructionFailed("property"))
           ELSE IF iv.s \notin DOMAIN heap[src.id].props
           THEN FailIn(Pop, "PropNotFound", e.loc, M_PropNotFound(iv.s))
           ELSE Go(CV(SlotS(heap[src.id].props[iv.s].v, src)), Pop)      \* PropReadSetsSource
       ELSE
           IF iv.k # "int"
           THEN FailIn(Pop, "IncorrectType", e.i.loc, M_IncorrectType("index", "int", iv))
           ELSE IF iv.n < 0
           THEN FailIn(Pop, "NegativeIndex", e.i.loc, M_NegativeIndex)
           ELSE IF src.k = "string" THEN
               IF iv.n >= Len(src.s)
               THEN FailIn(Pop, "OutOfStringBounds", e.loc, M_OutOfStringBounds(iv.n))
               ELSE Go(CV(Slot(VStr(<<src.s[iv.n + 1]>>))), Pop)
           ELSE
               IF iv.n >= Len(heap[src.id].items)
               THEN FailIn(Pop, "OutOfListBounds", e.loc, M_OutOfListBounds(iv.n))
               ELSE Go(CV(heap[src.id].items[iv.n + 1]), Pop)   \* the stored slot, provenance kept

\* Range-index read: start, end (each an int >= 0), then the indexed value.
RIdxAfterStart(e, start, kk) ==
    IF e.end.t # "none"
    THEN Go(CE(e.end), Append(kk, [f |-> "riend", e |-> e, start |-> start]))
    ELSE Go(CE(e.e), Append(kk, [f |-> "risrc", e |-> e, start |-> start, end |-> IdxNone]))

E_RIndex ==
    /\ c.m = "E" /\ c.e.t = "rindex"
    /\ IF c.e.start.t # "none"
       THEN Go(CE(c.e.start), Push([f |-> "ristart", e |-> c.e]))
       ELSE RIdxAfterStart(c.e, IdxNone, K)

IndexCheck(v, loc, ctx, ok(_)) ==     \* an index / bound must be an int >= 0
    IF v.k # "int" THEN FailIn(ctx, "IncorrectType", loc, M_IncorrectType("index", "int", v))
    ELSE IF v.n < 0 THEN FailIn(ctx, "NegativeIndex", loc, M_NegativeIndex)
    ELSE ok(v.n)

V_RIStart ==
    /\ c.m = "V" /\ HasTop("ristart")
    /\ LET e == Top.e
           Cont(n) == RIdxAfterStart(e, IdxSome(n), Pop) IN
       IndexCheck(c.s.v, e.start.loc, Pop, Cont)

V_RIEnd ==
    /\ c.m = "V" /\ HasTop("riend")
    /\ LET e == Top.e
           st == Top.start
           Cont(n) == Go(CE(e.e), Swap([f |-> "risrc", e |-> e, start |-> st, end |-> IdxSome(n)])) IN
       IndexCheck(c.s.v, e.end.loc, Pop, Cont)

V_RISrc ==
    /\ c.m = "V" /\ HasTop("risrc")
    /\ LET e == Top.e
           v == c.s.v
           a == IF Top.start.some THEN Top.start.n ELSE 0 IN
       IF v.k = "string" THEN
           LET b == IF Top.end.some THEN Top.end.n ELSE Len(v.s) IN
           IF a <= b /\ b <= Len(v.s)
           THEN Go(CV(Slot(VStr(SubSeq(v.s, a + 1, b)))), Pop)
           ELSE FailIn(Pop, "RangeOutOfStringBounds", e.loc, M_RangeOutOfStringBounds(a, b))
       ELSE IF v.k = "list" THEN
           LET xs == heap[v.id].items
               b == IF Top.end.some THEN Top.end.n ELSE Len(xs) IN
           IF a <= b /\ b <= Len(xs)
           THEN GoH(CV(Slot(VList(NewId(heap)))), Pop, Append(heap, CList(SubSeq(xs, a + 1, b))))
           ELSE FailIn(Pop, "RangeOutOfListBounds", e.loc, M_RangeOutOfListBounds(a, b))
       ELSE FailIn(Pop, "ValueNotRangeIndexable", e.loc, M_ValueNotRangeIndexable)

\* a .. b
E_Range == /\ c.m = "E" /\ c.e.t = "range"
           /\ Go(CE(c.e.start), Push([f |-> "rgstart", e |-> c.e]))

V_RgStart ==
    /\ c.m = "V" /\ HasTop("rgstart")
    /\ IF c.s.v.k # "int"
       THEN FailIn(Pop, "IncorrectType", Top.e.start.loc, M_IncorrectType("range start", "int", c.s.v))
       ELSE Go(CE(Top.e.end), Swap([f |-> "rgend", e |-> Top.e, start |-> c.s.v.n]))

V_RgEnd ==
    /\ c.m = "V" /\ HasTop("rgend")
    /\ IF c.s.v.k # "int"
       THEN FailIn(Pop, "IncorrectType", Top.e.end.loc, M_IncorrectType("range end", "int", c.s.v))
       ELSE LET a == Top.start
                b == c.s.v.n
                n == IF b > a THEN b - a ELSE 0 IN
            GoH(CV(Slot(VList(NewId(heap)))), Pop,
                Append(heap, CList([i \in 1 .. n |-> Slot(VInt(a + i - 1))])))

\* Object literal: entries in source order, later entries replace earlier ones.
ObjC(e, i, acc) == [m |-> "O", e |-> e, i |-> i, acc |-> acc]

E_Object == /\ c.m = "E" /\ c.e.t = "object" /\ Go(ObjC(c.e, 1, <<>>), K)

O_Done == /\ c.m = "O" /\ c.i > Len(c.e.props)
          /\ GoH(CV(Slot(VObj(NewId(heap)))), K, Append(heap, CObj(c.acc)))

O_Pair == /\ c.m = "O" /\ c.i <= Len(c.e.props) /\ c.e.props[c.i].t = "pair"
          /\ Go(CE(c.e.props[c.i].name), Push([f |-> "objname", e |-> c.e, i |-> c.i, acc |-> c.acc]))

V_ObjName ==
    /\ c.m = "V" /\ HasTop("objname")
    /\ LET p == Top.e.props[Top.i] IN
       IF c.s.v.k # "string"
       THEN FailIn(Pop, "IncorrectType", p.name.loc, M_IncorrectType("property name", "string", c.s.v))
       ELSE IF ~ValidUtf8(c.s.v.s)
       THEN FailIn(Pop, "StringConstructionFailed", p.name.loc, M_StringConstructionFailed("property name"))
       ELSE Go(CE(p.value),
               Swap([f |-> "objvalue", e |-> Top.e, i |-> Top.i, acc |-> Top.acc, name |-> c.s.v.s]))

V_ObjValue ==
    /\ c.m = "V" /\ HasTop("objvalue")
    /\ Go(ObjC(Top.e, Top.i + 1, (Top.name :> c.s) @@ Top.acc), Pop)

O_Single ==
    /\ c.m = "O" /\ c.i <= Len(c.e.props) /\ c.e.props[c.i].t = "single"
    /\ LET p == c.e.props[c.i] IN
       IF p.collect
       THEN Fail("ObjectCollectOutsideDestructure", c.e.loc, M_ObjectCollectOutsideDestructure)
       ELSE IF p.spread
       THEN Go(CE(p.e), Push([f |-> "objspread", e |-> c.e, i |-> c.i, acc |-> c.acc]))
       ELSE IF p.e.t # "var"
       THEN Fail("ObjectPropShorthandNotVar", p.e.loc, M_ObjectPropShorthandNotVar)
       ELSE LET sid == Lookup(p.e.name) IN
            IF sid = 0 THEN Fail("Undefined", p.e.loc, M_Undefined(p.e.name))
            ELSE Go(ObjC(c.e, c.i + 1, (p.e.name :> scopes[sid].vars[p.e.name].s) @@ c.acc), K)

V_ObjSpread ==
    /\ c.m = "V" /\ HasTop("objspread")
    /\ IF c.s.v.k = "object"
       THEN Go(ObjC(Top.e, Top.i + 1, heap[c.s.v.id].props @@ Top.acc), Pop)
       ELSE FailIn(Pop, "SpreadNonObjectInObject", Top.e.props[Top.i].e.loc,
                   M_SpreadNonObjectInObject(c.s.v))

\* e.name and e->name
E_Prop == /\ c.m = "E" /\ c.e.t = "prop"
          /\ Go(CE(c.e.e), Push([f |-> "propsrc", e |-> c.e]))

TypeFns(v) ==        \* the type-function namespace of a value: name -> builtin name
    CASE v.k = "bool"    -> (N_type :> BN_bool_type)
      [] v.k = "int"     -> (N_type :> BN_int_type)
      [] v.k = "string"  -> (N_len :> BN_str_len) @@ (N_type :> BN_str_type)
      [] v.k = "list"    -> (N_type :> BN_list_type)
      [] v.k = "object"  -> (N_type :> BN_object_type)
      [] v.k = "func"    -> (N_type :> BN_func_type)
      [] v.k = "builtin" -> (N_type :> BN_func_type)

V_PropSrc ==
    /\ c.m = "V" /\ HasTop("propsrc")
    /\ LET e == Top.e
           v == c.s.v IN
       IF e.tp THEN
           IF v.k = "null" THEN FailIn(Pop, "TypeFunctionOnNull", e.loc, M_TypeFunctionOnNull)
           ELSE IF e.name \notin DOMAIN TypeFns(v)
           THEN FailIn(Pop, "TypeFunctionNotFound", e.loc, M_TypeFunctionNotFound(e.name, v))
           ELSE Go(CV(SlotS(VBuiltin(TypeFns(v)[e.name]), v)), Pop)
       ELSE
           IF v.k # "object"
           THEN FailIn(Pop, "PropAccessOnNonObject", e.loc, M_PropAccessOnNonObject(v))
           ELSE IF e.name \notin DOMAIN heap[v.id].props
           THEN FailIn(Pop, "PropNotFound", e.loc, M_PropNotFound(e.name))
           ELSE Go(CV(SlotS(heap[v.id].props[e.name].v, v)), Pop)        \* PropReadSetsSource

\* fn (...) { ... }  captures the current chain by reference.
E_Func ==
    /\ c.m = "E" /\ c.e.t = "func"
    /\ GoH(CV(Slot(VFn(NewId(heap)))), K,
           Append(heap, CFn(NoName, c.e.params, c.e.collect, c.e.body, env)))

\* Interpolated string: pieces and slot values concatenated in order.
I_Lit  == /\ c.m = "I" /\ c.i <= Len(c.e.parts) /\ c.e.parts[c.i].t = "lit"
          /\ Go([c EXCEPT !.i = @ + 1, !.acc = @ \o c.e.parts[c.i].s], K)
I_Slot == /\ c.m = "I" /\ c.i <= Len(c.e.parts) /\ c.e.parts[c.i].t = "slot"
          /\ Go(CE(c.e.parts[c.i].e), Push([f |-> "interp", e |-> c.e, i |-> c.i, acc |-> c.acc]))
I_BadSlot ==
    /\ c.m = "I" /\ c.i <= Len(c.e.parts) /\ c.e.parts[c.i].t = "badslot"
    /\ Fail("InterpolateStringParseFailed", SlotLoc(c.e.loc, c.e.parts[c.i], c.i),
            M_InterpolateStringParseFailed)
I_Done == /\ c.m = "I" /\ c.i > Len(c.e.parts) /\ Go(CV(Slot(VStr(c.acc))), K)

V_Interp ==
    /\ c.m = "V" /\ HasTop("interp")
    /\ LET loc == SlotLoc(Top.e.loc, Top.e.parts[Top.i], Top.i) IN
       IF c.s.v.k # "string"
       THEN FailIn(Pop, "InterpolatedValueNotString", loc, M_InterpolatedValueNotString(c.s.v))
       ELSE IF ~ValidUtf8(c.s.v.s)
       THEN FailIn(Pop, "StringConstructionFailed", loc, M_StringConstructionFailed("interpolated slot"))
       ELSE Go([m |-> "I", e |-> Top.e, i |-> Top.i + 1, acc |-> Top.acc \o c.s.v.s], Pop)

-----------------------------------------------------------------------------
(* Calls.  Arguments are already evaluated (left to right, each once); the *)
(* callee was evaluated after them (Decision_ArgsBeforeCallee).            *)

\* the receiver binding is positioned at the call
ThisVar(loc) == [t |-> "var", loc |-> loc, name |-> N_this]

CallBuiltin(e, fv, args) ==
    LET name == fv.v.name
        hasThis == fv.src.k # "none"
        nargs == Len(args) IN
    IF name = N_print THEN
        IF nargs # 1 THEN FailIn(Pop, "BuiltinArgs", e.loc, M_BuiltinArgs("print", 1, nargs))
        ELSE IF hasThis THEN FailIn(Pop, "Dev", e.loc, M_Dev("'this' shouldn't exist"))
        ELSE LET r == Render(args[1].v, heap) IN
             IF r.ok THEN Upd(CV(Slot(VNull)), Pop, env, scopes, heap, Append(out, r.b))
             ELSE IF r.why = "utf8" THEN FailIn(Pop, "PrintUtf8", e.loc, M_PrintUtf8)
             ELSE FailIn(Pop, "PrintCyclic", e.loc, M_PrintCyclic)
    ELSE IF name = BN_str_len THEN
        IF nargs # 0 THEN FailIn(Pop, "BuiltinArgs", e.loc, M_BuiltinArgs("len", 0, nargs))
        ELSE IF ~hasThis THEN FailIn(Pop, "Dev", e.loc, M_Dev("'this' doesn't exist"))
        ELSE IF fv.src.k # "string" THEN FailIn(Pop, "Dev", e.loc, M_Dev("dev err: expected 'string'"))
        ELSE IF ~ValidUtf8(fv.src.s) THEN FailIn(Pop, "ThisUtf8", e.loc, M_ThisUtf8)
        ELSE Go(CV(Slot(VInt(Len(fv.src.s)))), Pop)
    ELSE \* the `type` function of every namespace
        IF nargs # 0 THEN FailIn(Pop, "BuiltinArgs", e.loc, M_BuiltinArgs("type", 0, nargs))
        ELSE IF ~hasThis THEN FailIn(Pop, "Dev", e.loc, M_Dev("'this' doesn't exist"))
        ELSE Go(CV(Slot(VStr(TypeNameBytes(fv.src)))), Pop)

\* A user function: the count is checked, then a fresh scope is pushed on the
\* function's *definition* chain, the parameters are declared in it one by
\* one (a `..rest` parameter gets a fresh list of the surplus), `this` last if
\* the callee slot has provenance (ThisIsReadSource), and the body runs in
\* that same scope.
CallUser(e, fv, args) ==
    LET fn == heap[fv.v.id]
        np == Len(fn.params)
        got == Len(args) IN
    IF fn.collect /\ np - 1 > got
    THEN FailIn(Pop, "TooFewArgs", e.loc, M_TooFewArgs(np - 1, got))
    ELSE IF ~fn.collect /\ np # got
    THEN FailIn(Pop, "ArgNumMismatch", e.loc, M_ArgNumMismatch(np, got))
    ELSE
      LET restId == NewId(heap)
          heap2 == IF fn.collect THEN Append(heap, CList(SubSeq(args, np, got))) ELSE heap
          binds == [i \in 1 .. np |->
                      [p |-> fn.params[i],
                       s |-> IF fn.collect /\ i = np THEN Slot(VList(restId)) ELSE args[i]]]
          binds2 == IF fv.src.k # "none"
                    THEN Append(binds, [p |-> ThisVar(e.loc), s |-> Slot(fv.src)])
                    ELSE binds
          sid == NewId(scopes)
          frame == [f |-> "call", fn |-> FnOfName(fn.name), loc |-> e.loc, env |-> env]
      IN Upd([m |-> "P", bs |-> binds2, i |-> 1, body |-> fn.body],
             Append(Pop, frame), Append(fn.closure, sid), Append(scopes, EmptyScope), heap2, out)

V_Callee ==
    /\ c.m = "V" /\ HasTop("callee")
    /\ LET e == Top.e
           args == Top.args IN
       CASE c.s.v.k = "builtin" -> CallBuiltin(e, c.s, args)
         [] c.s.v.k = "func"    -> CallUser(e, c.s, args)
         [] OTHER               -> FailIn(Pop, "CannotCallNonFunc", e.loc, M_CannotCallNonFunc(c.s.v))

P_Next == /\ c.m = "P" /\ c.i <= Len(c.bs)
          /\ Go(CB(c.bs[c.i].p, c.bs[c.i].s, NoOp, "decl", {}),
                Push([f |-> "param", bs |-> c.bs, i |-> c.i, body |-> c.body]))
D_Param == /\ c.m = "D" /\ HasTop("param")
           /\ Go([m |-> "P", bs |-> Top.bs, i |-> Top.i + 1, body |-> Top.body], Pop)
P_Done == /\ c.m = "P" /\ c.i > Len(c.bs)
          /\ LET s == StartSeq(c.body, K) IN Go(s.c, s.k)

\* Leaving a call: `return v` ends exactly this call with v; running off the
\* end yields null; a stray break/continue is an error (StrayJumpIsError).
X_Call ==
    /\ c.m = "X" /\ HasTop("call")
    /\ CASE c.x.k = "none"     -> Upd(CV(Slot(VNull)), Pop, Top.env, scopes, heap, out)
         [] c.x.k = "return"   -> Upd(CV(c.x.s), Pop, Top.env, scopes, heap, out)
         [] c.x.k = "break"    -> Fail("BreakOutsideLoop", c.x.loc, M_BreakOutsideLoop)
         [] c.x.k = "continue" -> Fail("ContinueOutsideLoop", c.x.loc, M_ContinueOutsideLoop)

-----------------------------------------------------------------------------
(* Statements *)

\* Statement list: next statement after a normal completion; any escape ends
\* the list (NoStmtAfterJump).
X_Seq ==
    /\ c.m = "X" /\ HasTop("seq")
    /\ IF c.x.k = "none" /\ Top.i < Len(Top.ss)
       THEN Go(St(Top.ss[Top.i + 1]), Swap([Top EXCEPT !.i = @ + 1]))
       ELSE Go(c, Pop)

\* Leaving a scope restores the chain; the escape passes through unchanged.
X_Scope == /\ c.m = "X" /\ HasTop("scope")
           /\ Upd(c, Pop, Top.env, scopes, heap, out)

\* Entering a fresh scope for a body (block, branch, iteration).
EnterScope(ss, kk) ==
    LET s == StartSeq(ss, Append(kk, [f |-> "scope", env |-> env])) IN
    Upd(s.c, s.k, Append(env, NewId(scopes)), Append(scopes, EmptyScope), heap, out)

S_Block == /\ c.m = "S" /\ c.st.t = "block"
           /\ EnterScope(c.st.body, Push([f |-> "blockstmt"]))

\* A bare block is transparent to break/continue/return (CrossBlock).
X_BlockStmt == /\ c.m = "X" /\ HasTop("blockstmt") /\ Go(c, Pop)

S_Expr == /\ c.m = "S" /\ c.st.t = "expr" /\ Go(CE(c.st.e), Push([f |-> "exprstmt"]))
V_ExprStmt == /\ c.m = "V" /\ HasTop("exprstmt") /\ Go(CX(XNone), Pop)

\* Declaration / assignment / op-assignment: right-hand side first, then the
\* target (Decision_RhsBeforeTarget).
S_Declare == /\ c.m = "S" /\ c.st.t = "declare"
             /\ Go(CE(c.st.rhs), Push([f |-> "bindrhs", st |-> c.st]))
S_Assign == /\ c.m = "S" /\ c.st.t = "assign"
            /\ Go(CE(c.st.rhs), Push([f |-> "bindrhs", st |-> c.st]))
S_OpAssign == /\ c.m = "S" /\ c.st.t = "opassign"
              /\ Go(CE(c.st.rhs), Push([f |-> "bindrhs", st |-> c.st]))

V_BindRhs ==
    /\ c.m = "V" /\ HasTop("bindrhs")
    /\ LET st == Top.st IN
       Go(CB(st.lhs, c.s,
            IF st.t = "opassign" THEN SomeOp(st.op, st.oploc) ELSE NoOp,
            IF st.t = "declare" THEN "decl" ELSE "assign", {}),
          Swap([f |-> "bindroot"]))

D_BindRoot == /\ c.m = "D" /\ HasTop("bindroot") /\ Go(CX(XNone), Pop)

\* if / else if / else: conditions in order until the first true one.
IfC(st, i) == [m |-> "IF", st |-> st, i |-> i]
S_If == /\ c.m = "S" /\ c.st.t = "if" /\ Go(IfC(c.st, 1), K)
IF_Cond == /\ c.m = "IF" /\ c.i <= Len(c.st.branches)
           /\ Go(CE(c.st.branches[c.i].cond), Push([f |-> "ifcond", st |-> c.st, i |-> c.i]))
IF_Else == /\ c.m = "IF" /\ c.i > Len(c.st.branches)
           /\ IF c.st.els.some THEN EnterScope(c.st.els.body, K) ELSE Go(CX(XNone), K)
V_IfCond ==
    /\ c.m = "V" /\ HasTop("ifcond")
    /\ LET br == Top.st.branches[Top.i] IN
       IF c.s.v.k # "bool"
       THEN FailIn(Pop, "IncorrectType", br.cond.loc, M_IncorrectType("condition", "bool", c.s.v))
       ELSE IF c.s.v.b THEN EnterScope(br.body, Pop)
       ELSE Go(IfC(Top.st, Top.i + 1), Pop)

\* while: the condition is evaluated before every iteration (WhileRetest).
S_While == /\ c.m = "S" /\ c.st.t = "while"
           /\ Go(CE(c.st.cond), Push([f |-> "whilecond", st |-> c.st]))
V_WhileCond ==
    /\ c.m = "V" /\ HasTop("whilecond")
    /\ IF c.s.v.k # "bool"
       THEN FailIn(Pop, "IncorrectType", Top.st.cond.loc, M_IncorrectType("condition", "bool", c.s.v))
       ELSE IF c.s.v.b THEN EnterScope(Top.st.body, Swap([f |-> "whilebody", st |-> Top.st]))
       ELSE Go(CX(XNone), Pop)
X_WhileBody ==
    /\ c.m = "X" /\ HasTop("whilebody")
    /\ CASE c.x.k \in {"none", "continue"} ->
                Go(CE(Top.st.cond), Swap([f |-> "whilecond", st |-> Top.st]))
         [] c.x.k = "break"  -> Go(CX(XNone), Pop)
         [] c.x.k = "return" -> Go(c, Pop)

\* for: the iterable is evaluated once and its pairs are snapshotted; each
\* iteration gets a fresh scope in which the target is declared against a
\* fresh two-element list [key, value] and in which the body runs.
ForC(st, pairs, i) == [m |-> "F", st |-> st, pairs |-> pairs, i |-> i]
S_For == /\ c.m = "S" /\ c.st.t = "for"
         /\ Go(CE(c.st.iter), Push([f |-> "foriter", st |-> c.st]))
V_ForIter ==
    /\ c.m = "V" /\ HasTop("foriter")
    /\ IF Iterable(c.s.v)
       THEN Go(ForC(Top.st, ForPairs(c.s.v, heap), 1), Pop)
       ELSE FailIn(Pop, "ForIterNotIterable", Top.st.iter.loc, M_ForIterNotIterable)
F_Next ==
    /\ c.m = "F" /\ c.i <= Len(c.pairs)
    /\ LET pid == NewId(heap)
           sid == NewId(scopes) IN
       Upd(CB(c.st.lhs, Slot(VList(pid)), NoOp, "decl", {}),
           K \o <<[f |-> "forbody", st |-> c.st, pairs |-> c.pairs, i |-> c.i],
                  [f |-> "scope", env |-> env],
                  [f |-> "forbind", st |-> c.st]>>,
           Append(env, sid), Append(scopes, EmptyScope),
           Append(heap, CList(<<c.pairs[c.i][1], c.pairs[c.i][2]>>)), out)
F_Done == /\ c.m = "F" /\ c.i > Len(c.pairs) /\ Go(CX(XNone), K)
D_ForBind == /\ c.m = "D" /\ HasTop("forbind")
             /\ LET s == StartSeq(Top.st.body, Pop) IN Go(s.c, s.k)
X_ForBody ==
    /\ c.m = "X" /\ HasTop("forbody")
    /\ CASE c.x.k \in {"none", "continue"} -> Go(ForC(Top.st, Top.pairs, Top.i + 1), Pop)
         [] c.x.k = "break"  -> Go(CX(XNone), Pop)
         [] c.x.k = "return" -> Go(c, Pop)

S_Break    == /\ c.m = "S" /\ c.st.t = "break"    /\ Go(CX(XBreak(c.st.loc)), K)
S_Continue == /\ c.m = "S" /\ c.st.t = "continue" /\ Go(CX(XContinue(c.st.loc)), K)
S_Return   == /\ c.m = "S" /\ c.st.t = "return"
              /\ Go(CE(c.st.e), Push([f |-> "retexpr", st |-> c.st]))
V_RetExpr  == /\ c.m = "V" /\ HasTop("retexpr") /\ Go(CX(XReturn(c.s, Top.st.loc)), Pop)

\* fn name(...) {...}: the parameter patterns of a *named* function are
\* validated at the declaration (Decision_ParamValidation: breadth-first, and
\* a parameter `_` ends the validation); the function captures the current
\* chain and is declared in the current scope, so it can see itself.
ValErr(kind, loc, msg) == [ok |-> FALSE, kind |-> kind, loc |-> loc, msg |-> msg]
RECURSIVE ValidateParams(_, _)
ValidateParams(queue, seen) ==
    IF queue = <<>> THEN [ok |-> TRUE]
    ELSE LET a == Head(queue)
             rest == Tail(queue) IN
         IF a.t = "var" THEN
             IF a.name = N_us THEN [ok |-> TRUE]
             ELSE IF a.name \in DOMAIN seen
             THEN ValErr("DupParamName", a.loc, M_DupParamName(a.name, seen[a.name]))
             ELSE ValidateParams(rest, (a.name :> a.loc) @@ seen)
         ELSE IF a.t = "object" THEN
             IF \E i \in 1 .. Len(a.props) : a.props[i].t = "single" /\ a.props[i].spread
             THEN ValErr("PropSpreadInParamList", a.loc, M_SpreadInParamList)
             ELSE ValidateParams(
                    rest \o [i \in 1 .. Len(a.props) |->
                               IF a.props[i].t = "pair" THEN a.props[i].value ELSE a.props[i].e],
                    seen)
         ELSE IF a.t = "list" THEN
             IF \E i \in 1 .. Len(a.items) : a.items[i].spread
             THEN ValErr("ItemSpreadInParamList", a.loc, M_SpreadInParamList)
             ELSE ValidateParams(rest \o [i \in 1 .. Len(a.items) |-> a.items[i].e], seen)
         ELSE ValErr("InvalidBindTarget", a.loc, M_InvalidBindTarget(BindTargetDescr(a.t)))

S_Fn ==
    /\ c.m = "S" /\ c.st.t = "fn"
    /\ LET st == c.st
           r == ValidateParams(st.params, <<>>)
           fid == NewId(heap)
           heap2 == Append(heap, CFn(SomeName(st.name), st.params, st.collect, st.body, env)) IN
       IF ~r.ok THEN Fail(r.kind, r.loc, r.msg)
       ELSE IF st.name = N_us THEN GoH(CX(XNone), K, heap2)
       ELSE IF st.name \in DOMAIN scopes[InnerScope].vars
       THEN Fail("AlreadyInScope", st.nameloc,
                 M_AlreadyInScope(st.name, scopes[InnerScope].vars[st.name].loc))
       ELSE Upd(CX(XNone), K, env,
                Declared(InnerScope, st.name, Slot(VFn(fid)), st.nameloc), heap2, out)

\* End of the program: a stray escape is an error at the statement's position.
X_Program ==
    /\ c.m = "X" /\ Len(K) = 0
    /\ CASE c.x.k = "none" ->
                /\ status' = Done /\ steps' = steps + 1
                /\ UNCHANGED <<c, K, env, scopes, heap, out>>
         [] c.x.k = "break"    -> Fail("BreakOutsideLoop", c.x.loc, M_BreakOutsideLoop)
         [] c.x.k = "continue" -> Fail("ContinueOutsideLoop", c.x.loc, M_ContinueOutsideLoop)
         [] c.x.k = "return"   -> Fail("ReturnOutsideFunction", c.x.loc, M_ReturnOutsideFunction)

-----------------------------------------------------------------------------
(* Binding: one engine for `:=`, `=`, `op=`, `for` targets and parameters  *)
(* (SamePositionsSameRules).  `names` is the set of names bound so far by  *)
(* this pattern (OncePerPattern).                                          *)

\* Store into a variable / element / property: with an operator the stored
\* value is `current op rhs` (no provenance); without, the rhs slot itself.
B_Var ==
    /\ c.m = "B" /\ c.lhs.t = "var"
    /\ LET name == c.lhs.name
           loc == c.lhs.loc IN
       IF name = N_us THEN Go(CD(c.names), K)                        \* UnderscoreDiscards
       ELSE IF name \in c.names
       THEN Fail("AlreadyInBinding", loc, M_AlreadyInBinding(name))
       ELSE IF c.bt = "decl" THEN
           IF name \in DOMAIN scopes[InnerScope].vars
           THEN Fail("AlreadyInScope", loc,
                     M_AlreadyInScope(name, scopes[InnerScope].vars[name].loc))
           ELSE Upd(CD(c.names \cup {name}), K, env,
                    Declared(InnerScope, name, c.rhs, loc), heap, out)
       ELSE
           LET sid == Lookup(name) IN
           IF sid = 0 THEN Fail("Undefined", loc, M_Undefined(name))
           ELSE LET r == Combine(c.op, scopes[sid].vars[name].s, c.rhs) IN
                CASE r.r = "keep"  -> Upd(CD(c.names \cup {name}), K, env,
                                          Assigned(sid, name, c.rhs), heap, out)
                  [] r.r = "val"   -> Upd(CD(c.names \cup {name}), K, env,
                                          Assigned(sid, name, Slot(r.v)), heap, out)
                  [] r.r = "alloc" -> Upd(CD(c.names \cup {name}), K, env,
                                          Assigned(sid, name, Slot(VList(NewId(heap)))),
                                          Append(heap, r.cell), out)
                  [] r.r = "err"   -> Fail(r.kind, c.op.loc, r.msg)

\* xs[i] = v / o[k] = v
B_Index == /\ c.m = "B" /\ c.lhs.t = "index"
           /\ Go(CE(c.lhs.e), Push([f |-> "bidxsrc", b |-> c]))

V_BIdxSrc ==
    /\ c.m = "V" /\ HasTop("bidxsrc")
    /\ IF c.s.v.k \in {"list", "object"}
       THEN Go(CE(Top.b.lhs.i), Swap([f |-> "bidxloc", b |-> Top.b, src |-> c.s.v]))
       ELSE FailIn(Pop, "ValueNotIndexAssignable", Top.b.lhs.loc, M_ValueNotIndexAssignable)

\* Writing slot `new` over a list element or an object property.
StoreList(id, i, new, h) == [h EXCEPT ![id].items[i] = new]
StoreProp(id, key, new, h) == [h EXCEPT ![id].props = (key :> new) @@ @]

V_BIdxLoc ==
    /\ c.m = "V" /\ HasTop("bidxloc")
    /\ LET b == Top.b
           lhs == b.lhs
           src == Top.src
           iv == c.s.v IN
       IF src.k = "list" THEN
           IF iv.k # "int"
           THEN FailIn(Pop, "IncorrectType", lhs.i.loc, M_IncorrectType("index", "int", iv))
           ELSE IF iv.n < 0 THEN FailIn(Pop, "NegativeIndex", lhs.i.loc, M_NegativeIndex)
           ELSE IF iv.n >= Len(heap[src.id].items)
           THEN FailIn(Pop, "OutOfListBounds", lhs.loc, M_OutOfListBounds(iv.n))
           ELSE LET r == Combine(b.op, heap[src.id].items[iv.n + 1], b.rhs) IN
                CASE r.r = "keep"  -> GoH(CD(b.names), Pop, StoreList(src.id, iv.n + 1, b.rhs, heap))
                  [] r.r = "val"   -> GoH(CD(b.names), Pop, StoreList(src.id, iv.n + 1, Slot(r.v), heap))
                  [] r.r = "alloc" -> GoH(CD(b.names), Pop,
                                          StoreList(src.id, iv.n + 1, Slot(VList(NewId(heap))),
                                                    Append(heap, r.cell)))
                  [] r.r = "err"   -> FailIn(Pop, r.kind, b.op.loc, r.msg)
       ELSE
           IF iv.k # "string"
           THEN FailIn(Pop, "IncorrectType", lhs.i.loc, M_IncorrectType("property", "string", iv))
           ELSE IF ~ValidUtf8(iv.s)
           THEN FailIn(Pop, "StringConstructionFailed", lhs.i.loc, M_StringConstructionFailed("property"))
           ELSE IF iv.s \in DOMAIN heap[src.id].props THEN
               LET r == Combine(b.op, heap[src.id].props[iv.s], b.rhs) IN
               CASE r.r = "keep"  -> GoH(CD(b.names), Pop, StoreProp(src.id, iv.s, b.rhs, heap))
                 [] r.r = "val"   -> GoH(CD(b.names), Pop, StoreProp(src.id, iv.s, Slot(r.v), heap))
                 [] r.r = "alloc" -> GoH(CD(b.names), Pop,
                                         StoreProp(src.id, iv.s, Slot(VList(NewId(heap))),
                                                   Append(heap, r.cell)))
                 [] r.r = "err"   -> FailIn(Pop, r.kind, b.op.loc, r.msg)
           ELSE IF b.op.some
           THEN FailIn(Pop, "OpOnUndefinedIndex", lhs.loc, M_Undefined(iv.s))
           ELSE GoH(CD(b.names), Pop, StoreProp(src.id, iv.s, b.rhs, heap))      \* NewKeyIffAbsent

\* o.name = v
B_Prop ==
    /\ c.m = "B" /\ c.lhs.t = "prop"
    /\ IF c.lhs.tp THEN Fail("AssignToTypeProp", c.lhs.loc, M_AssignToTypeProp)
       ELSE Go(CE(c.lhs.e), Push([f |-> "bpropsrc", b |-> c]))

V_BPropSrc ==
    /\ c.m = "V" /\ HasTop("bpropsrc")
    /\ LET b == Top.b
           lhs == b.lhs
           v == c.s.v IN
       IF v.k # "object"
       THEN FailIn(Pop, "PropAccessOnNonObject", lhs.loc, M_PropAccessOnNonObject(v))
       ELSE IF lhs.name \in DOMAIN heap[v.id].props THEN
           LET r == Combine(b.op, heap[v.id].props[lhs.name], b.rhs) IN
           CASE r.r = "keep"  -> GoH(CD(b.names), Pop, StoreProp(v.id, lhs.name, b.rhs, heap))
             [] r.r = "val"   -> GoH(CD(b.names), Pop, StoreProp(v.id, lhs.name, Slot(r.v), heap))
             [] r.r = "alloc" -> GoH(CD(b.names), Pop,
                                     StoreProp(v.id, lhs.name, Slot(VList(NewId(heap))),
                                               Append(heap, r.cell)))
             [] r.r = "err"   -> FailIn(Pop, r.kind, b.op.loc, r.msg)
       ELSE IF b.op.some
       THEN FailIn(Pop, "OpOnUndefinedProp", lhs.loc, M_Undefined(lhs.name))
       ELSE GoH(CD(b.names), Pop, StoreProp(v.id, lhs.name, b.rhs, heap))

\* xs[a:b] = ys : the list, the kind of ys (a list's slots, or one 1-byte
\* string per byte of a string), a, b, then the domain checks in order, then
\* the element-wise write.  An omitted start is 0 and an omitted end is the
\* length of xs (C11).
B_RIndex ==
    /\ c.m = "B" /\ c.lhs.t = "rindex"
    /\ IF c.op.some THEN Fail("OpOnRangeIndex", c.lhs.loc, M_OpOnRangeIndex)
       ELSE Go(CE(c.lhs.e), Push([f |-> "brisrc", b |-> c]))

RC(b, lid, ritems, stage, start, end) ==
    [m |-> "R", b |-> b, lid |-> lid, ritems |-> ritems, stage |-> stage, start |-> start, end |-> end]

V_BRISrc ==
    /\ c.m = "V" /\ HasTop("brisrc")
    /\ LET b == Top.b
           rv == b.rhs.v IN
       IF c.s.v.k # "list"
       THEN FailIn(Pop, "ValueNotRangeIndexAssignable", b.lhs.loc, M_ValueNotRangeIndexAssignable)
       ELSE IF rv.k = "list"
       THEN Go(RC(b, c.s.v.id, heap[rv.id].items, "start", 0, 0), Pop)
       ELSE IF rv.k = "string"
       THEN Go(RC(b, c.s.v.id, [i \in 1 .. Len(rv.s) |-> Slot(VStr(<<rv.s[i]>>))], "start", 0, 0), Pop)
       ELSE FailIn(Pop, "RangeIndexAssignOnNonIndexable", b.lhs.loc,
                   M_RangeIndexAssignOnNonIndexable(rv))

R_Start ==
    /\ c.m = "R" /\ c.stage = "start"
    /\ IF c.b.lhs.start.t = "none" THEN Go([c EXCEPT !.stage = "end", !.start = 0], K)
       ELSE Go(CE(c.b.lhs.start), Push([f |-> "bristart", r |-> c]))
V_BRIStart ==
    /\ c.m = "V" /\ HasTop("bristart")
    /\ LET r == Top.r
           Cont(n) == Go([r EXCEPT !.stage = "end", !.start = n], Pop) IN
       IndexCheck(c.s.v, r.b.lhs.start.loc, Pop, Cont)
R_End ==
    /\ c.m = "R" /\ c.stage = "end"
    /\ IF c.b.lhs.end.t = "none"
       THEN Go([c EXCEPT !.stage = "fin", !.end = Len(heap[c.lid].items)], K)
       ELSE Go(CE(c.b.lhs.end), Push([f |-> "briend", r |-> c]))
V_BRIEnd ==
    /\ c.m = "V" /\ HasTop("briend")
    /\ LET r == Top.r
           Cont(n) == Go([r EXCEPT !.stage = "fin", !.end = n], Pop) IN
       IndexCheck(c.s.v, r.b.lhs.end.loc, Pop, Cont)
R_Fin ==
    /\ c.m = "R" /\ c.stage = "fin"
    /\ LET n == Len(heap[c.lid].items)
           a == c.start
           b == c.end
           loc == c.b.lhs.loc IN
       IF a > n THEN Fail("RangeStartOutOfListBounds", loc, M_RangeStartOutOfListBounds(a, n))
       ELSE IF a >= b THEN Fail("RangeStartNotBeforeEnd", loc, M_RangeStartNotBeforeEnd(a, b))
       ELSE IF b > n THEN Fail("RangeEndOutOfListBounds", loc, M_RangeEndOutOfListBounds(b, n))
       ELSE IF b - a # Len(c.ritems)
       THEN Fail("RangeIndexItemMismatch", loc, M_RangeIndexItemMismatch(b - a, Len(c.ritems)))
       ELSE GoH(CD(c.b.names), K,
                [heap EXCEPT ![c.lid].items =
                    [i \in 1 .. n |-> IF i > a /\ i <= b THEN c.ritems[i - a] ELSE @[i]]])

\* [p1, .., pn] / [p1, .., ..rest]
BLC(b, i, names) == [m |-> "BL", b |-> b, i |-> i, names |-> names]
B_List ==
    /\ c.m = "B" /\ c.lhs.t = "list"
    /\ LET lhs == c.lhs
           nl == Len(lhs.items) IN
       IF c.op.some THEN Fail("OpOnListDestructure", lhs.loc, M_OpOnListDestructure)
       ELSE IF c.rhs.v.k # "list"
       THEN Fail("ListDestructureOnNonList", lhs.loc, M_ListDestructureOnNonList(c.rhs.v))
       ELSE LET nr == Len(heap[c.rhs.v.id].items) IN
            IF lhs.collect /\ nl - 1 > nr
            THEN Fail("ListCollectTooFew", lhs.loc, M_ListDestructureItemMismatch(nl, nr))
            ELSE IF ~lhs.collect /\ nl # nr
            THEN Fail("ListDestructureItemMismatch", lhs.loc, M_ListDestructureItemMismatch(nl, nr))
            ELSE Go(BLC(c, 1, c.names), K)
BL_Done == /\ c.m = "BL" /\ c.i > Len(c.b.lhs.items) /\ Go(CD(c.names), K)
BL_Item ==
    /\ c.m = "BL" /\ c.i <= Len(c.b.lhs.items)
    /\ LET b == c.b
           lhs == b.lhs
           nl == Len(lhs.items)
           item == lhs.items[c.i]
           xs == heap[b.rhs.v.id].items
           fr == [f |-> "blist", b |-> b, i |-> c.i] IN
       IF item.spread
       THEN Fail("SpreadInListDestructure", lhs.loc, M_SpreadInListDestructure(c.i - 1))
       ELSE IF lhs.collect /\ c.i = nl
       THEN GoH(CB(item.e, Slot(VList(NewId(heap))), NoOp, b.bt, c.names), Push(fr),
                Append(heap, CList(SubSeq(xs, nl, Len(xs)))))              \* RestFresh
       ELSE Go(CB(item.e, xs[c.i], NoOp, b.bt, c.names), Push(fr))
D_BList == /\ c.m = "D" /\ HasTop("blist") /\ Go(BLC(Top.b, Top.i + 1, c.names), Pop)

\* {a, "K": p, ..rest}
BOC(b, i, rem, names) == [m |-> "BO", b |-> b, i |-> i, rem |-> rem, names |-> names]
B_Object ==
    /\ c.m = "B" /\ c.lhs.t = "object"
    /\ IF c.op.some THEN Fail("OpOnObjectDestructure", c.lhs.loc, M_OpOnObjectDestructure)
       ELSE IF c.rhs.v.k # "object"
       THEN Fail("ObjectDestructureOnNonObject", c.lhs.loc, M_ObjectDestructureOnNonObject(c.rhs.v))
       ELSE Go(BOC(c, 1, DOMAIN heap[c.rhs.v.id].props, c.names), K)
BO_Done == /\ c.m = "BO" /\ c.i > Len(c.b.lhs.props) /\ Go(CD(c.names), K)

\* Bind pattern `p` to property `name` of the source object (a property named
\* `_` is skipped without a presence check).
BindProp(b, i, rem, names, name, nameLoc, p, kk) ==
    LET props == heap[b.rhs.v.id].props IN
    IF name = N_us THEN Go(BOC(b, i + 1, rem \ {name}, names), kk)
    ELSE IF name \notin DOMAIN props
    THEN FailIn(kk, "PropNotFound", nameLoc, M_PropNotFound(name))
    ELSE Go(CB(p, props[name], NoOp, b.bt, names),
            Append(kk, [f |-> "bobj", b |-> b, i |-> i, rem |-> rem \ {name}]))

BO_Single ==
    /\ c.m = "BO" /\ c.i <= Len(c.b.lhs.props) /\ c.b.lhs.props[c.i].t = "single"
    /\ LET b == c.b
           item == b.lhs.props[c.i]
           props == heap[b.rhs.v.id].props IN
       IF item.spread
       THEN Fail("SpreadOnObjectDestructure", item.e.loc, M_SpreadOnObjectDestructure)
       ELSE IF item.e.t # "var"
       THEN Fail("ObjectPropShorthandNotVar", item.e.loc, M_ObjectPropShorthandNotVar)
       ELSE IF item.collect THEN
           IF c.i # Len(b.lhs.props)
           THEN Fail("ObjectCollectIsNotLast", item.e.loc, M_ObjectCollectIsNotLast)
           ELSE GoH(CB(item.e, Slot(VObj(NewId(heap))), NoOp, b.bt, c.names),
                    Push([f |-> "bobj", b |-> b, i |-> c.i, rem |-> c.rem]),
                    Append(heap, CObj([key \in (c.rem \cap DOMAIN props) |-> props[key]])))
       ELSE BindProp(b, c.i, c.rem, c.names, item.e.name, item.e.loc, item.e, K)

BO_Pair ==
    /\ c.m = "BO" /\ c.i <= Len(c.b.lhs.props) /\ c.b.lhs.props[c.i].t = "pair"
    /\ Go(CE(c.b.lhs.props[c.i].name),
          Push([f |-> "bobjname", b |-> c.b, i |-> c.i, rem |-> c.rem, names |-> c.names]))
V_BObjName ==
    /\ c.m = "V" /\ HasTop("bobjname")
    /\ LET item == Top.b.lhs.props[Top.i] IN
       IF c.s.v.k # "string"
       THEN FailIn(Pop, "IncorrectType", item.name.loc, M_IncorrectType("property", "string", c.s.v))
       ELSE IF ~ValidUtf8(c.s.v.s)
       THEN FailIn(Pop, "StringConstructionFailed", item.name.loc, M_StringConstructionFailed("property"))
       ELSE BindProp(Top.b, Top.i, Top.rem, Top.names, c.s.v.s, item.name.loc, item.value, Pop)
D_BObj == /\ c.m = "D" /\ HasTop("bobj") /\ Go(BOC(Top.b, Top.i + 1, Top.rem, c.names), Pop)

\* Anything else cannot be bound (OnlyBindableTargets).
B_Invalid ==
    /\ c.m = "B"
    /\ c.lhs.t \in {"null", "bool", "int", "str", "istr", "binop", "range", "func", "call"}
    /\ Fail("InvalidBindTarget", c.lhs.loc, M_InvalidBindTarget(BindTargetDescr(c.lhs.t)))

-----------------------------------------------------------------------------

Terminal == status.k # "running" /\ UNCHANGED vars

ExprStep ==
    \/ E_Null \/ E_Bool \/ E_Int \/ E_Str \/ E_IStr \/ E_Var \/ E_BinOp \/ V_BinL \/ V_BinR
    \/ E_List \/ E_Call \/ V_Items \/ E_Index \/ V_IdxSrc \/ V_IdxLoc
    \/ E_RIndex \/ V_RIStart \/ V_RIEnd \/ V_RISrc \/ E_Range \/ V_RgStart \/ V_RgEnd
    \/ E_Object \/ O_Done \/ O_Pair \/ V_ObjName \/ V_ObjValue \/ O_Single \/ V_ObjSpread
    \/ E_Prop \/ V_PropSrc \/ E_Func \/ I_Lit \/ I_Slot \/ I_BadSlot \/ I_Done \/ V_Interp
CallStep == V_Callee \/ P_Next \/ D_Param \/ P_Done \/ X_Call
StmtStep ==
    \/ X_Seq \/ X_Scope \/ S_Block \/ X_BlockStmt \/ S_Expr \/ V_ExprStmt
    \/ S_Declare \/ S_Assign \/ S_OpAssign \/ V_BindRhs \/ D_BindRoot
    \/ S_If \/ IF_Cond \/ IF_Else \/ V_IfCond \/ S_While \/ V_WhileCond \/ X_WhileBody
    \/ S_For \/ V_ForIter \/ F_Next \/ F_Done \/ D_ForBind \/ X_ForBody
    \/ S_Break \/ S_Continue \/ S_Return \/ V_RetExpr \/ S_Fn \/ X_Program
BindStep ==
    \/ B_Var \/ B_Index \/ V_BIdxSrc \/ V_BIdxLoc \/ B_Prop \/ V_BPropSrc
    \/ B_RIndex \/ V_BRISrc \/ R_Start \/ V_BRIStart \/ R_End \/ V_BRIEnd \/ R_Fin
    \/ B_List \/ BL_Done \/ BL_Item \/ D_BList
    \/ B_Object \/ BO_Done \/ BO_Single \/ BO_Pair \/ V_BObjName \/ D_BObj \/ B_Invalid

Step == status.k = "running" /\ (ExprStep \/ CallStep \/ StmtStep \/ BindStep)
Next == Step \/ Terminal

\* The machine started on program `body` (a sequence of statements): one
\* global scope holding `print`, in which the top-level statements run.
InitWith(body) ==
    LET s == StartSeq(body, <<>>) IN
    /\ c = s.c /\ K = s.k
    /\ env = <<1>>
    /\ scopes = <<[vars |-> (N_print :> [s |-> Slot(VBuiltin(N_print)), loc |-> Loc0])]>>
    /\ heap = <<>>
    /\ out = <<>>
    /\ status = Running
    /\ steps = 0

-----------------------------------------------------------------------------
(* Invariants of the machine itself (checked in every state of every run)  *)

\* ids never dangle
RECURSIVE SlotIdsOk(_)
ValIdOk(v) == IF v.k \in {"list", "object", "func"} THEN v.id \in 1 .. Len(heap) ELSE TRUE
SlotIdsOk(s) == ValIdOk(s.v) /\ (s.src.k = "none" \/ ValIdOk(s.src))
HeapClosed ==
    /\ \A i \in 1 .. Len(heap) :
         CASE heap[i].k = "list"   -> \A j \in 1 .. Len(heap[i].items) : SlotIdsOk(heap[i].items[j])
           [] heap[i].k = "object" -> \A key \in DOMAIN heap[i].props : SlotIdsOk(heap[i].props[key])
           [] heap[i].k = "func"   -> \A j \in 1 .. Len(heap[i].closure) :
                                          heap[i].closure[j] \in 1 .. Len(scopes)
    /\ \A i \in 1 .. Len(scopes) : \A n \in DOMAIN scopes[i].vars : SlotIdsOk(scopes[i].vars[n].s)
    /\ \A i \in 1 .. Len(env) : env[i] \in 1 .. Len(scopes)

\* `_` never becomes a variable
UnderscoreNeverInScope == \A i \in 1 .. Len(scopes) : N_us \notin DOMAIN scopes[i].vars

\* a failure is always located, and ends the run with the output so far
FailureIsLocated == status.k = "failed" => Located(status.diag)

\* object keys are always well-formed text
KeysAreText ==
    \A i \in 1 .. Len(heap) :
        heap[i].k = "object" => \A key \in DOMAIN heap[i].props : ValidUtf8(key)

=============================================================================
