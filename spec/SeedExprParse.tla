--------------------------- MODULE SeedExprParse ---------------------------
(***************************************************************************)
(* Grouping of expressions (C08).                                          *)
(*                                                                         *)
(* Tier table, written from the statement of the property:                 *)
(*   postfix forms (call, index, range-index, .name, ->name) bind tightest *)
(*   4   * / %  == != < <= > >= === !==                                    *)
(*   3   + -                                                               *)
(*   2   && ||                                                             *)
(*   1   ..                                                                *)
(* operators of one tier group left to right; a `-` directly before an     *)
(* integer literal in operand position negates the literal; parentheses    *)
(* override.                                                               *)
(*                                                                         *)
(* Two formulations: an operator-precedence machine that consumes one      *)
(* token per step (`Parse`), and the declarative `WellGrouped` predicate   *)
(* on trees.  The model checks that the machine's result is the unique     *)
(* well-grouped tree with the given frontier.                              *)
(***************************************************************************)
EXTENDS Integers, Sequences, FiniteSets, TLC, SequencesExt

Tier(op) ==
    CASE op \in {"*", "/", "%", "==", "!=", "<", "<=", ">", ">=", "===", "!=="} -> 4
      [] op \in {"+", "-"} -> 3
      [] op \in {"&&", "||"} -> 2
      [] op = ".." -> 1
BinOps == {"*", "/", "%", "==", "!=", "<", "<=", ">", ">=", "===", "!==", "+", "-", "&&", "||", ".."}

\* tokens
TVar(i) == [k |-> "var", i |-> i]
TInt(n) == [k |-> "int", n |-> n]
TOp(op) == [k |-> "op", op |-> op]
TLp == [k |-> "lp"]
TRp == [k |-> "rp"]
TPost(p) == [k |-> "post", p |-> p]
Postfixes == {"call", "index", "rindex", "dot", "arrow"}

\* trees
Var(i) == [t |-> "var", i |-> i, par |-> FALSE]
IntL(n) == [t |-> "int", n |-> n, par |-> FALSE]
Post(p, e) == [t |-> "post", p |-> p, e |-> e, par |-> FALSE]
Bin(op, l, r) == [t |-> "bin", op |-> op, l |-> l, r |-> r, par |-> FALSE]
Paren(e) == [e EXCEPT !.par = TRUE]

\* does a tree count as an atom for grouping?  (anything but an unparenthesised binary node)
IsAtom(t) == t.t # "bin" \/ t.par
NodeTier(t) == IF IsAtom(t) THEN 5 ELSE Tier(t.op)

RECURSIVE WellGrouped(_)
WellGrouped(t) ==
    CASE t.t \in {"var", "int"} -> TRUE
      [] t.t = "post" -> IsAtom(t.e) /\ WellGrouped(t.e)
      [] t.t = "bin" -> /\ NodeTier([t.l EXCEPT !.par = @]) >= Tier(t.op)      \* left: at least as tight
                        /\ NodeTier(t.r) > Tier(t.op)                           \* right: strictly tighter
                        /\ WellGrouped(t.l) /\ WellGrouped(t.r)

RECURSIVE Strip(_)
Strip(t) ==        \* forget parentheses (what the syntax tree keeps)
    CASE t.t \in {"var", "int"} -> [t EXCEPT !.par = FALSE]
      [] t.t = "post" -> [t EXCEPT !.par = FALSE, !.e = Strip(@)]
      [] t.t = "bin" -> [t EXCEPT !.par = FALSE, !.l = Strip(@), !.r = Strip(@)]

-----------------------------------------------------------------------------
(* The machine: one token per step.  A frame per open parenthesis holds the  *)
(* operand stack and the operator stack of that nesting level.               *)
Frame == [vals |-> <<>>, ops |-> <<>>]

RECURSIVE ReduceWhile(_, _)
ReduceWhile(fr, minTier) ==     \* reduce while the top operator is at least as tight as minTier
    IF Len(fr.ops) > 0 /\ Tier(fr.ops[Len(fr.ops)]) >= minTier
    THEN LET n == Len(fr.vals)
             node == Bin(fr.ops[Len(fr.ops)], fr.vals[n - 1], fr.vals[n]) IN
         ReduceWhile([vals |-> Append(SubSeq(fr.vals, 1, n - 2), node),
                      ops |-> SubSeq(fr.ops, 1, Len(fr.ops) - 1)], minTier)
    ELSE fr

\* state of the machine: [frames, expect (an operand is expected), i (next token)]
PInit == [frames |-> <<Frame>>, expect |-> TRUE, i |-> 1, ok |-> TRUE]
PushVal(st, v) ==
    LET n == Len(st.frames) IN
    [st EXCEPT !.frames[n].vals = Append(@, v), !.expect = FALSE]

PStep(st, toks) ==
    LET tk == toks[st.i]
        n == Len(st.frames)
        fr == st.frames[n] IN
    IF st.expect THEN
        CASE tk.k = "var" -> [PushVal(st, Var(tk.i)) EXCEPT !.i = @ + 1]
          [] tk.k = "int" -> [PushVal(st, IntL(tk.n)) EXCEPT !.i = @ + 1]
          \* a `-` directly before an integer literal in operand position negates it
          [] tk.k = "op" /\ tk.op = "-" /\ st.i < Len(toks) /\ toks[st.i + 1].k = "int" ->
                 [PushVal(st, IntL(-toks[st.i + 1].n)) EXCEPT !.i = @ + 2]
          [] tk.k = "lp" -> [st EXCEPT !.frames = Append(@, Frame), !.i = @ + 1]
          [] OTHER -> [st EXCEPT !.ok = FALSE]
    ELSE
        CASE tk.k = "post" ->
                 [st EXCEPT !.frames[n].vals[Len(fr.vals)] = Post(tk.p, @), !.i = @ + 1]
          [] tk.k = "op" ->
                 LET r == ReduceWhile(fr, Tier(tk.op)) IN
                 [st EXCEPT !.frames[n] = [vals |-> r.vals, ops |-> Append(r.ops, tk.op)],
                            !.expect = TRUE, !.i = @ + 1]
          [] tk.k = "rp" /\ n > 1 ->
                 LET r == ReduceWhile(fr, 0)
                     outer == st.frames[n - 1] IN
                 [st EXCEPT !.frames = Append(SubSeq(st.frames, 1, n - 2),
                                              [outer EXCEPT !.vals = Append(@, Paren(r.vals[1]))]),
                            !.i = @ + 1]
          [] OTHER -> [st EXCEPT !.ok = FALSE]

RECURSIVE PRun(_, _)
PRun(st, toks) == IF ~st.ok \/ st.i > Len(toks) THEN st ELSE PRun(PStep(st, toks), toks)

\* the tree of a complete token sequence (or "no parse")
Parse(toks) ==
    LET st == PRun(PInit, toks) IN
    IF st.ok /\ ~st.expect /\ Len(st.frames) = 1
    THEN [ok |-> TRUE, t |-> ReduceWhile(st.frames[1], 0).vals[1]]
    ELSE [ok |-> FALSE, t |-> Var(0)]

-----------------------------------------------------------------------------
(* Writing a tree out with only the necessary parentheses *)
RECURSIVE Unparse(_, _)
Unparse(t, minTier) ==
    LET body ==
          CASE t.t = "var" -> <<TVar(t.i)>>
            [] t.t = "int" -> IF t.n < 0 THEN <<TOp("-"), TInt(-t.n)>> ELSE <<TInt(t.n)>>
            [] t.t = "post" -> Unparse(t.e, 5) \o <<TPost(t.p)>>
            [] t.t = "bin" -> Unparse(t.l, Tier(t.op)) \o <<TOp(t.op)>> \o Unparse(t.r, Tier(t.op) + 1)
        tier == IF t.t = "bin" THEN Tier(t.op) ELSE 5 IN
    IF tier < minTier THEN <<TLp>> \o body \o <<TRp>> ELSE body

\* all binary trees over operands lo..hi with the operators ops[lo..hi-1]
RECURSIVE AllTrees(_, _, _, _)
AllTrees(operands, ops, lo, hi) ==
    IF lo = hi THEN {operands[lo]}
    ELSE UNION { { Bin(ops[kx], l, r) : l \in AllTrees(operands, ops, lo, kx), r \in AllTrees(operands, ops, kx + 1, hi) }
                 : kx \in lo .. (hi - 1) }
=============================================================================
