------------------------------ MODULE SeedGen ------------------------------
(***************************************************************************)
(* Program construction for the bounded models.                            *)
(*                                                                         *)
(* Generators build abstract syntax trees (the encoding of the AST dump)   *)
(* with empty positions; `LabProg` then gives every node its *path* in the *)
(* tree as its position.  The machine treats positions as opaque, so a     *)
(* path serves as well as a (line, column) pair; the replay harness maps   *)
(* each path to the place where its renderer put the node's anchor token.  *)
(***************************************************************************)
EXTENDS SeedEval

NL == <<>>      \* "no location yet"

\* Expressions
ENull          == [t |-> "null", loc |-> NL]
EBool(b)       == [t |-> "bool", loc |-> NL, b |-> b]
EInt(n)        == [t |-> "int", loc |-> NL, n |-> n]
EStr(s)        == [t |-> "str", loc |-> NL, s |-> s]
EVar(name)     == [t |-> "var", loc |-> NL, name |-> name]
EBin(op, l, r) == [t |-> "binop", loc |-> NL, op |-> op, oploc |-> NL, l |-> l, r |-> r]
Item(e)        == [e |-> e, spread |-> FALSE]
Spread(e)      == [e |-> e, spread |-> TRUE]
EListOf(items) == [t |-> "list", loc |-> NL, items |-> items, collect |-> FALSE]
EList(es)      == EListOf([i \in 1 .. Len(es) |-> Item(es[i])])
EPat(es)       == EList(es)                                   \* list pattern
EPatRest(es)   == [t |-> "list", loc |-> NL, items |-> [i \in 1 .. Len(es) |-> Item(es[i])],
                   collect |-> TRUE]                          \* last item collects
EIndex(e, i)   == [t |-> "index", loc |-> NL, e |-> e, i |-> i]
ENone          == [t |-> "none"]
ERIndex(e, a, b) == [t |-> "rindex", loc |-> NL, e |-> e, start |-> a, end |-> b]
ERange(a, b)   == [t |-> "range", loc |-> NL, start |-> a, end |-> b]
Pair(n, v)     == [t |-> "pair", name |-> n, value |-> v]
Short(e)       == [t |-> "single", e |-> e, spread |-> FALSE, collect |-> FALSE]
PSpread(e)     == [t |-> "single", e |-> e, spread |-> TRUE, collect |-> FALSE]
PCollect(e)    == [t |-> "single", e |-> e, spread |-> FALSE, collect |-> TRUE]
EObj(props)    == [t |-> "object", loc |-> NL, props |-> props]
EProp(e, name) == [t |-> "prop", loc |-> NL, e |-> e, name |-> name, tp |-> FALSE]
ETProp(e, name) == [t |-> "prop", loc |-> NL, e |-> e, name |-> name, tp |-> TRUE]
EFunc(params, collect, body) ==
    [t |-> "func", loc |-> NL, params |-> params, collect |-> collect, body |-> body]
ECallOf(f, args) == [t |-> "call", loc |-> NL, f |-> f, args |-> args]
ECall(f, es)   == ECallOf(f, [i \in 1 .. Len(es) |-> Item(es[i])])
Lit(s)         == [t |-> "lit", s |-> s]
SlotP(off, e)  == [t |-> "slot", off |-> off, e |-> e]
EIStr(parts)   == [t |-> "istr", loc |-> NL, parts |-> parts]

\* Statements
SBlock(body)     == [t |-> "block", body |-> body]
SExpr(e)         == [t |-> "expr", e |-> e]
SDecl(lhs, rhs)  == [t |-> "declare", lhs |-> lhs, rhs |-> rhs]
SAssign(lhs, rhs) == [t |-> "assign", lhs |-> lhs, rhs |-> rhs]
SOpAssign(lhs, op, rhs) == [t |-> "opassign", lhs |-> lhs, op |-> op, oploc |-> NL, rhs |-> rhs]
Branch(cond, body) == [cond |-> cond, body |-> body]
NoElse           == [some |-> FALSE, body |-> <<>>]
Else(body)       == [some |-> TRUE, body |-> body]
SIfOf(branches, els) == [t |-> "if", branches |-> branches, els |-> els]
SIf(cond, body)  == SIfOf(<<Branch(cond, body)>>, NoElse)
SIfElse(cond, body, ebody) == SIfOf(<<Branch(cond, body)>>, Else(ebody))
SWhile(cond, body) == [t |-> "while", cond |-> cond, body |-> body]
SFor(lhs, iter, body) == [t |-> "for", lhs |-> lhs, iter |-> iter, body |-> body]
SBreak           == [t |-> "break", loc |-> NL]
SContinue        == [t |-> "continue", loc |-> NL]
SReturn(e)       == [t |-> "return", loc |-> NL, e |-> e]
SFn(name, params, collect, body) ==
    [t |-> "fn", name |-> name, nameloc |-> NL, params |-> params, collect |-> collect,
     body |-> body]
SPrint(e)        == SExpr(ECall(EVar(N_print), <<e>>))

-----------------------------------------------------------------------------
(* Labelling: node position := path *)

RECURSIVE LabE(_, _), LabS(_, _), LabBlock(_, _)

LabItems(items, p) == [i \in 1 .. Len(items) |-> [items[i] EXCEPT !.e = LabE(@, p \o <<i>>)]]

LabE(e, p) ==
    CASE e.t \in {"null", "bool", "int", "str", "var"} -> [e EXCEPT !.loc = p]
      [] e.t = "none"   -> e
      [] e.t = "istr"   -> [e EXCEPT !.loc = p,
                            !.parts = [i \in 1 .. Len(e.parts) |->
                                         IF e.parts[i].t = "slot"
                                         THEN [e.parts[i] EXCEPT !.e = LabE(@, p \o <<i>>)]
                                         ELSE e.parts[i]]]
      [] e.t = "binop"  -> [e EXCEPT !.loc = p, !.oploc = p \o <<0>>,
                            !.l = LabE(@, p \o <<1>>), !.r = LabE(@, p \o <<2>>)]
      [] e.t = "list"   -> [e EXCEPT !.loc = p, !.items = LabItems(@, p)]
      [] e.t = "index"  -> [e EXCEPT !.loc = p, !.e = LabE(@, p \o <<1>>), !.i = LabE(@, p \o <<2>>)]
      [] e.t = "rindex" -> [e EXCEPT !.loc = p, !.e = LabE(@, p \o <<1>>),
                            !.start = LabE(@, p \o <<2>>), !.end = LabE(@, p \o <<3>>)]
      [] e.t = "range"  -> [e EXCEPT !.loc = p, !.start = LabE(@, p \o <<1>>), !.end = LabE(@, p \o <<2>>)]
      [] e.t = "object" -> [e EXCEPT !.loc = p,
                            !.props = [i \in 1 .. Len(e.props) |->
                                         IF e.props[i].t = "pair"
                                         THEN [e.props[i] EXCEPT !.name = LabE(@, p \o <<i, 1>>),
                                                                 !.value = LabE(@, p \o <<i, 2>>)]
                                         ELSE [e.props[i] EXCEPT !.e = LabE(@, p \o <<i, 1>>)]]]
      [] e.t = "prop"   -> [e EXCEPT !.loc = p, !.e = LabE(@, p \o <<1>>)]
      [] e.t = "func"   -> [e EXCEPT !.loc = p,
                            !.params = [i \in 1 .. Len(e.params) |-> LabE(e.params[i], p \o <<1, i>>)],
                            !.body = LabBlock(@, p \o <<2>>)]
      [] e.t = "call"   -> [e EXCEPT !.loc = p, !.f = LabE(@, p \o <<1>>),
                            !.args = LabItems(@, p \o <<2>>)]

LabBlock(ss, p) == [i \in 1 .. Len(ss) |-> LabS(ss[i], p \o <<i>>)]

LabS(s, p) ==
    CASE s.t = "block"    -> [s EXCEPT !.body = LabBlock(@, p \o <<1>>)]
      [] s.t = "expr"     -> [s EXCEPT !.e = LabE(@, p \o <<1>>)]
      [] s.t \in {"declare", "assign"} ->
                             [s EXCEPT !.lhs = LabE(@, p \o <<1>>), !.rhs = LabE(@, p \o <<2>>)]
      [] s.t = "opassign" -> [s EXCEPT !.oploc = p \o <<0>>,
                              !.lhs = LabE(@, p \o <<1>>), !.rhs = LabE(@, p \o <<2>>)]
      [] s.t = "if"       -> [s EXCEPT
                              !.branches = [i \in 1 .. Len(s.branches) |->
                                   [cond |-> LabE(s.branches[i].cond, p \o <<i, 1>>),
                                    body |-> LabBlock(s.branches[i].body, p \o <<i, 2>>)]],
                              !.els = [@ EXCEPT !.body = LabBlock(@, p \o <<0, 2>>)]]
      [] s.t = "while"    -> [s EXCEPT !.cond = LabE(@, p \o <<1>>), !.body = LabBlock(@, p \o <<2>>)]
      [] s.t = "for"      -> [s EXCEPT !.lhs = LabE(@, p \o <<1>>), !.iter = LabE(@, p \o <<2>>),
                              !.body = LabBlock(@, p \o <<3>>)]
      [] s.t \in {"break", "continue"} -> [s EXCEPT !.loc = p]
      [] s.t = "return"   -> [s EXCEPT !.loc = p, !.e = LabE(@, p \o <<1>>)]
      [] s.t = "fn"       -> [s EXCEPT !.nameloc = p \o <<0>>,
                              !.params = [i \in 1 .. Len(s.params) |-> LabE(s.params[i], p \o <<1, i>>)],
                              !.body = LabBlock(@, p \o <<2>>)]

LabProg(body) == LabBlock(body, <<>>)

=============================================================================
