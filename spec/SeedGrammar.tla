---------------------------- MODULE SeedGrammar ----------------------------
(***************************************************************************)
(* The statement and expression grammar of Seed over the token kinds of    *)
(* SeedLex, and a general (Earley) recogniser for it.                      *)
(*                                                                         *)
(* The grammar is written from docs/features.md and the constructs the     *)
(* properties name (statements end with a statement end; blocks; if / else *)
(* if / else; while; for .. in; fn; return; break; continue; declarations, *)
(* assignments and op-assignments; the expression tiers of C08; literals,  *)
(* list / object literals with spread and collect, calls, indexing, range  *)
(* indexing, `.name`, `->name`, anonymous functions).                      *)
(*                                                                         *)
(* An LR parser has the correct-prefix property: it reports the first      *)
(* token that cannot continue any sentence.  `Verdict(kinds)` computes     *)
(* exactly that: whether the token sequence is a program, and otherwise    *)
(* the index of the first token after which no sentence can follow         *)
(* (Len + 1: the input ended too early).                                   *)
(***************************************************************************)
EXTENDS Integers, Sequences, FiniteSets, TLC

P(lhs, rhs) == [lhs |-> lhs, rhs |-> rhs]

OpAssignToks == {"SumEquals", "SubEquals", "MulEquals", "DivEquals", "ModEquals"}
Op2Toks == {"AmpAmp", "PipePipe"}
Op3Toks == {"Sum", "Sub"}
Op4Toks == {"Mul", "Div", "Mod", "EqualsEquals", "BangEquals", "GreaterThan", "GreaterThanEquals",
            "LessThan", "LessThanEquals", "EqualsEqualsEquals", "BangEqualsEquals"}

Productions ==
    { P("Prog", <<"Stmts">>),
      P("Stmts", <<>>), P("Stmts", <<"Stmts", "Stmt">>),
      P("Stmts1", <<"Stmt">>), P("Stmts1", <<"Stmts1", "Stmt">>),
      P("Stmt", <<"RawStmt", "StmtEnd">>),
      P("RawStmt", <<"BraceOpen", "Stmts1", "BraceClose">>),
      P("RawStmt", <<"Expr">>),
      P("RawStmt", <<"Expr", "ColonEquals", "Expr">>),
      P("RawStmt", <<"Expr", "Equals", "Expr">>),
      P("RawStmt", <<"IfStmt">>),
      P("RawStmt", <<"While", "Expr", "Block">>),
      P("RawStmt", <<"For", "Expr", "In", "Expr", "Block">>),
      P("RawStmt", <<"Break">>), P("RawStmt", <<"Continue">>),
      P("RawStmt", <<"Fn", "Ident", "ParenOpen", "ParamList", "ParenClose", "Block">>),
      P("RawStmt", <<"Return", "Expr">>),
      P("ParamList", <<"ParamInit", "ParamLast">>),
      P("ParamInit", <<>>), P("ParamInit", <<"ParamInit", "Expr", "Comma">>),
      P("ParamLast", <<>>), P("ParamLast", <<"Expr">>), P("ParamLast", <<"DotDot", "Expr">>),
      P("Block", <<"BraceOpen", "Stmts", "BraceClose">>),
      P("IfStmt", <<"If", "Expr", "Block">>),
      P("IfStmt", <<"If", "Expr", "Block", "Else", "Block">>),
      P("IfStmt", <<"If", "Expr", "Block", "Else", "IfStmt">>),
      P("Expr", <<"E1">>),
      P("E1", <<"Expr", "DotDot", "E2">>), P("E1", <<"E2">>),
      P("E2", <<"E3">>), P("E3", <<"E4">>), P("E4", <<"E5">>),
      P("E5", <<"E5", "ParenOpen", "ArgList", "ParenClose">>),
      P("E5", <<"E5", "BracketOpen", "Expr", "BracketClose">>),
      P("E5", <<"E5", "BracketOpen", "OptExpr", "Colon", "OptExpr", "BracketClose">>),
      P("E5", <<"E5", "Dot", "Ident">>),
      P("E5", <<"E5", "DashGreaterThan", "Ident">>),
      P("E5", <<"E6">>),
      P("OptExpr", <<>>), P("OptExpr", <<"Expr">>),
      P("OptDots", <<>>), P("OptDots", <<"DotDot">>),
      P("ArgList", <<>>), P("ArgList", <<"Expr", "OptDots">>),
      P("ArgList", <<"Expr", "OptDots", "Comma", "ArgList">>),
      P("E6", <<"Null">>), P("E6", <<"True">>), P("E6", <<"False">>), P("E6", <<"Ident">>),
      P("E6", <<"IntLiteral">>), P("E6", <<"Sub", "IntLiteral">>), P("E6", <<"StrLiteral">>),
      P("E6", <<"InterpStrLiteral">>),
      P("E6", <<"ParenOpen", "E1", "ParenClose">>),
      P("E6", <<"BracketOpen", "ExprList", "BracketClose">>),
      P("E6", <<"BraceOpen", "PropList", "BraceClose">>),
      P("E6", <<"Fn", "ParenOpen", "ParamList", "ParenClose", "Block">>),
      P("ExprList", <<>>), P("ExprList", <<"OptDots", "Expr", "OptDots">>),
      P("ExprList", <<"Expr", "OptDots", "Comma", "ExprList">>),
      P("PropList", <<"PropInit", "PropLast">>),
      P("PropInit", <<>>), P("PropInit", <<"PropInit", "PropItem", "Comma">>),
      P("PropLast", <<>>), P("PropLast", <<"PropItem">>),
      P("PropItem", <<"Expr", "Colon", "Expr">>), P("PropItem", <<"OptDots", "Expr", "OptDots">>) }
    \cup { P("RawStmt", <<"Expr", t, "Expr">>) : t \in OpAssignToks }
    \cup { P("E2", <<"E2", t, "E3">>) : t \in Op2Toks }
    \cup { P("E3", <<"E3", t, "E4">>) : t \in Op3Toks }
    \cup { P("E4", <<"E4", t, "E5">>) : t \in Op4Toks }

NonTerminals == {p.lhs : p \in Productions}
ProdsOf(nt) == {p \in Productions : p.lhs = nt}

-----------------------------------------------------------------------------
(* Earley items: [p: production, d: dot position (0..Len(rhs)), o: origin set] *)
Item(p, d, o) == [p |-> p, d |-> d, o |-> o]
NextSym(it) == IF it.d < Len(it.p.rhs) THEN it.p.rhs[it.d + 1] ELSE "."
Complete(it) == it.d = Len(it.p.rhs)

\* one round of prediction and completion on the set being built (index kx);
\* `sets` are the finished sets 0 .. kx-1 (1-based sequence: sets[j + 1] is set j)
SetAt(sets, cur, kx, j) == IF j = kx THEN cur ELSE sets[j + 1]
Round(cur, kx, sets) ==
    cur
    \cup { Item(p, 0, kx) : p \in UNION { ProdsOf(NextSym(it)) : it \in {i2 \in cur : NextSym(i2) \in NonTerminals} } }
    \cup UNION { { Item(w.p, w.d + 1, w.o) : w \in {x \in SetAt(sets, cur, kx, it.o) : NextSym(x) = it.p.lhs} }
                 : it \in {i2 \in cur : Complete(i2)} }
RECURSIVE Close(_, _, _)
Close(cur, kx, sets) == LET nxt == Round(cur, kx, sets) IN IF nxt = cur THEN cur ELSE Close(nxt, kx, sets)

Scan(set, tok) == { Item(it.p, it.d + 1, it.o) : it \in {x \in set : NextSym(x) = tok} }

Set0 == Close({Item(p, 0, 0) : p \in ProdsOf("Prog")}, 0, <<>>)
Accepting(set) == \E it \in set : it.p.lhs = "Prog" /\ Complete(it) /\ it.o = 0

\* run over the token kinds; returns [ok, at]: ok = a program; otherwise `at` is the
\* index of the first token that cannot follow (Len + 1 = input ended too early)
RECURSIVE Run(_, _, _)
Run(kinds, i, sets) ==
    LET cur == sets[Len(sets)] IN
    IF i > Len(kinds) THEN [ok |-> Accepting(cur), at |-> Len(kinds) + 1]
    ELSE LET sc == Scan(cur, kinds[i]) IN
         IF sc = {} THEN [ok |-> FALSE, at |-> i]
         ELSE Run(kinds, i + 1, Append(sets, Close(sc, i, sets)))
Verdict(kinds) == Run(kinds, 1, <<Set0>>)
=============================================================================
