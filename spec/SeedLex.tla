------------------------------ MODULE SeedLex ------------------------------
(***************************************************************************)
(* The scanner and lexer of Seed, character by character.                  *)
(*                                                                         *)
(* Input: `src`, a sequence of characters (Unicode scalar values).         *)
(* State: the cursor `pos` with the incrementally maintained `line`/`col`, *)
(* the lexer mode, the string-literal scanning state, the last token (for  *)
(* the newline rule), the emitted tokens and the lexical error, if any.    *)
(*                                                                         *)
(* Position convention (anchor of C18): lines count from 1, columns count  *)
(* characters from 1; a newline character sits at column 0 of the line it  *)
(* starts (Decision_NewlineAtColumn0); at end of input the position is     *)
(* that of the last character.  `LocAt` states this declaratively from the *)
(* text alone; the machine maintains it incrementally; `PosInv` says they  *)
(* agree in every state.                                                   *)
(*                                                                         *)
(* The newline rule (C09): a newline or `;` ends the statement unless the  *)
(* previous token is a continuation token, a statement end, or there is    *)
(* no previous token.  `ContinuationToks` is the list of the property.     *)
(***************************************************************************)
EXTENDS Integers, Sequences, FiniteSets, TLC, SequencesExt, FiniteSetsExt, SeedLexInts

VARIABLES src, pos, line, col, mode, toks, err, last, str

lexvars == <<src, pos, line, col, mode, toks, err, last, str>>

NL == 10
IsDigit(ch) == ch >= 48 /\ ch <= 57
IsAlpha(ch) == (ch >= 65 /\ ch <= 90) \/ (ch >= 97 /\ ch <= 122)
IsWordStart(ch) == IsAlpha(ch) \/ ch = 95
IsWordChar(ch) == IsAlpha(ch) \/ IsDigit(ch) \/ ch = 95
IsBlank(ch) == ch \in {32, 9, 13, 12}            \* ASCII whitespace other than newline
HexVal(ch) == IF IsDigit(ch) THEN ch - 48
              ELSE IF ch >= 97 /\ ch <= 102 THEN ch - 87
              ELSE IF ch >= 65 /\ ch <= 70 THEN ch - 55 ELSE -1

-----------------------------------------------------------------------------
(* Positions, declaratively *)
N == Len(src)
AtEnd == pos > N
Cur == src[pos]
NewlinesUpTo(i) == Cardinality({j \in 1 .. i : src[j] = NL})
LastNlBefore(i) == LET S == {j \in 1 .. (i - 1) : src[j] = NL} IN IF S = {} THEN 0 ELSE Max(S)
\* position of the character at index i (1 <= i <= N)
LocOfChar(i) ==
    IF src[i] = NL THEN <<1 + NewlinesUpTo(i), 0>>
    ELSE <<1 + NewlinesUpTo(i - 1), i - LastNlBefore(i)>>
\* position of the cursor: the character under it, or the last character at the end
LocAt(p) == IF N = 0 THEN <<1, 1>> ELSE IF p > N THEN LocOfChar(N) ELSE LocOfChar(p)

PosInv == <<line, col>> = LocAt(pos)
InBounds == pos >= 1 /\ pos <= N + 1
LineBound == line <= NewlinesUpTo(N) + 1

\* incremental step of the scanner over character ch (the character moved *onto*)
Adv(l, cx, p) ==      \* new <<line, col>> after moving the cursor from p to p + 1
    IF p + 1 > N THEN <<l, cx>>
    ELSE IF src[p + 1] = NL THEN <<l + 1, 0>> ELSE <<l, cx + 1>>
RECURSIVE AdvN(_, _, _, _)
AdvN(l, cx, p, n) == IF n = 0 THEN <<l, cx>> ELSE LET a == Adv(l, cx, p) IN AdvN(a[1], a[2], p + 1, n - 1)

-----------------------------------------------------------------------------
(* Tokens *)
\* the end position the lexer reports for a token that ends just before index p: the
\* position of the cursor there, one column back when a character follows on the line
EndLoc(p) == LET lc == LocAt(p) IN IF p <= N /\ lc[2] > 0 THEN <<lc[1], lc[2] - 1>> ELSE lc
Tok(kind, text, slots, l, cx, endpos) ==
    [k |-> kind, text |-> text, slots |-> slots, l |-> l, c |-> cx,
     el |-> EndLoc(endpos)[1], ec |-> EndLoc(endpos)[2]]
NoTok == [k |-> "none"]

Keywords == [break |-> "Break", continue |-> "Continue", else |-> "Else", false |-> "False", fn |-> "Fn",
             for |-> "For", if |-> "If", in |-> "In", null |-> "Null", return |-> "Return",
             true |-> "True", while |-> "While"]
KwText == [break |-> <<98, 114, 101, 97, 107>>, continue |-> <<99, 111, 110, 116, 105, 110, 117, 101>>,
           else |-> <<101, 108, 115, 101>>, false |-> <<102, 97, 108, 115, 101>>, fn |-> <<102, 110>>,
           for |-> <<102, 111, 114>>, if |-> <<105, 102>>, in |-> <<105, 110>>,
           null |-> <<110, 117, 108, 108>>, return |-> <<114, 101, 116, 117, 114, 110>>,
           true |-> <<116, 114, 117, 101>>, while |-> <<119, 104, 105, 108, 101>>]
WordKind(w) == LET ks == {kw \in DOMAIN KwText : KwText[kw] = w} IN
               IF ks = {} THEN "Ident" ELSE Keywords[CHOOSE kw \in ks : TRUE]

Single == (125 :> "BraceClose") @@ (123 :> "BraceOpen") @@ (93 :> "BracketClose") @@ (91 :> "BracketOpen")
          @@ (58 :> "Colon") @@ (44 :> "Comma") @@ (47 :> "Div") @@ (46 :> "Dot") @@ (61 :> "Equals")
          @@ (62 :> "GreaterThan") @@ (60 :> "LessThan") @@ (37 :> "Mod") @@ (42 :> "Mul")
          @@ (41 :> "ParenClose") @@ (40 :> "ParenOpen") @@ (45 :> "Sub") @@ (43 :> "Sum")
Double == (<<38, 38>> :> "AmpAmp") @@ (<<33, 61>> :> "BangEquals") @@ (<<58, 61>> :> "ColonEquals")
          @@ (<<45, 62>> :> "DashGreaterThan") @@ (<<47, 61>> :> "DivEquals") @@ (<<46, 46>> :> "DotDot")
          @@ (<<61, 61>> :> "EqualsEquals") @@ (<<62, 61>> :> "GreaterThanEquals")
          @@ (<<60, 61>> :> "LessThanEquals") @@ (<<37, 61>> :> "ModEquals") @@ (<<42, 61>> :> "MulEquals")
          @@ (<<124, 124>> :> "PipePipe") @@ (<<45, 61>> :> "SubEquals") @@ (<<43, 61>> :> "SumEquals")
Triple == (<<61, 61, 61>> :> "EqualsEqualsEquals") @@ (<<33, 61, 61>> :> "BangEqualsEquals")

\* C09: a line break directly after one of these continues the statement
ContinuationToks ==
    {"Sum", "Sub", "Mul", "Div", "Mod", "EqualsEquals", "BangEquals", "LessThan", "LessThanEquals",
     "GreaterThan", "GreaterThanEquals", "AmpAmp", "PipePipe", "Equals", "ColonEquals", "SumEquals",
     "SubEquals", "MulEquals", "DivEquals", "ModEquals", "Comma", "Dot", "ParenOpen", "BracketOpen",
     "BraceOpen"}

\* (the integer-literal rules: MaxIntDigits, StripZeros, FitsI64 -- module SeedLexInts)

-----------------------------------------------------------------------------
(* The machine *)
StrInit == [st |-> "none", buf |-> <<>>, hex |-> -1, slotStart |-> 0, slots |-> <<>>, braces |-> 0,
            interp |-> FALSE, l |-> 0, c |-> 0]

LexInit(text) ==
    /\ src = text /\ pos = 1
    /\ line = (IF Len(text) > 0 /\ text[1] = NL THEN 2 ELSE 1)
    /\ col = (IF Len(text) > 0 /\ text[1] = NL THEN 0 ELSE 1)
    /\ mode = "top" /\ toks = <<>> /\ err = NoTok /\ last = "none" /\ str = StrInit

\* move the cursor n characters forward (never beyond the end of the input)
Move(n0) == LET n == Min({n0, N + 1 - pos}) IN
            /\ pos' = pos + n
            /\ line' = AdvN(line, col, pos, n)[1]
            /\ col' = AdvN(line, col, pos, n)[2]

Emit(t) == /\ toks' = Append(toks, t) /\ last' = t.k
LexFail(kind, l, cx, ch) ==
    /\ err' = [k |-> kind, l |-> l, c |-> cx, ch |-> ch]
    /\ mode' = "failed"
    /\ UNCHANGED <<src, pos, line, col, toks, last, str>>

\* length of the run of word / integer / comment characters starting at index i
RECURSIVE RunLenWord(_), RunLenInt(_), RunLenComment(_)
RunLenWord(i) == IF i <= N /\ IsWordChar(src[i]) THEN 1 + RunLenWord(i + 1) ELSE 0
RunLenInt(i) == IF i <= N /\ (IsDigit(src[i]) \/ src[i] = 95) THEN 1 + RunLenInt(i + 1) ELSE 0
RunLenComment(i) == IF i <= N /\ src[i] # NL THEN 1 + RunLenComment(i + 1) ELSE 0

Top == mode = "top" /\ ~AtEnd

SkipBlank == /\ Top /\ IsBlank(Cur) /\ Move(1) /\ UNCHANGED <<src, mode, toks, err, last, str>>
SkipComment == /\ Top /\ Cur = 35 /\ Move(RunLenComment(pos))
               /\ UNCHANGED <<src, mode, toks, err, last, str>>

\* newline or `;`: a statement end, unless suppressed
StmtEnd ==
    /\ Top /\ Cur \in {NL, 59}
    /\ Move(1)
    /\ IF last = "none" \/ last \in ContinuationToks \cup {"StmtEnd"}
       THEN toks' = toks /\ last' = "StmtEnd"
       ELSE Emit(Tok("StmtEnd", <<>>, <<>>, line, col, pos + 1))
    /\ UNCHANGED <<src, mode, err, str>>

Word ==
    /\ Top /\ IsWordStart(Cur)
    /\ LET n == RunLenWord(pos)
           w == SubSeq(src, pos, pos + n - 1) IN
       /\ Move(n)
       /\ Emit(Tok(WordKind(w), IF WordKind(w) = "Ident" THEN w ELSE <<>>, <<>>, line, col, pos + n))
    /\ UNCHANGED <<src, mode, err, str>>

IntLit ==
    /\ Top /\ IsDigit(Cur)
    /\ LET n == RunLenInt(pos)
           raw == SubSeq(src, pos, pos + n - 1)
           ds == SelectSeq(raw, LAMBDA ch : ch # 95) IN
       IF FitsI64(ds)
       THEN /\ Move(n) /\ Emit(Tok("IntLiteral", StripZeros(ds), <<>>, line, col, pos + n))
            /\ UNCHANGED <<src, mode, err, str>>
       ELSE LexFail("IntOverflow", line, col, raw)

\* symbols: longest match among the one-, two- and three-character tokens, with
\* one character of lookahead per step
EmitSym(kind, n) == /\ Move(n) /\ Emit(Tok(kind, <<>>, <<>>, line, col, pos + n))
                    /\ UNCHANGED <<src, mode, err, str>>
Sym ==
    /\ Top
    /\ ~IsBlank(Cur) /\ Cur \notin {NL, 59, 35, 34, 36} /\ ~IsWordStart(Cur) /\ ~IsDigit(Cur)
    /\ LET c1 == Cur
           d == pos + 1 <= N /\ <<c1, src[pos + 1]>> \in DOMAIN Double
           t == d /\ pos + 2 <= N /\ <<c1, src[pos + 1], src[pos + 2]>> \in DOMAIN Triple IN
       IF t THEN EmitSym(Triple[<<c1, src[pos + 1], src[pos + 2]>>], 3)
       ELSE IF d THEN EmitSym(Double[<<c1, src[pos + 1]>>], 2)
       ELSE IF c1 \in DOMAIN Single THEN EmitSym(Single[c1], 1)
       ELSE LexFail("Unexpected", line, col, <<c1>>)

\* string literals.  `$` makes the literal interpolated and the character after it
\* is taken as the opening quote whatever it is (Decision_DollarConsumesNext).
StrOpen ==
    /\ Top /\ Cur \in {34, 36}
    /\ Move(IF Cur = 36 THEN 2 ELSE 1)
    /\ mode' = "str"
    /\ str' = [StrInit EXCEPT !.interp = (Cur = 36), !.l = line, !.c = col]
    /\ UNCHANGED <<src, toks, err, last>>

InStr == mode = "str" /\ ~AtEnd
StrTok(endpos) == Tok(IF str.interp THEN "InterpStrLiteral" ELSE "StrLiteral", str.buf, str.slots,
                      str.l, str.c, endpos)
Keep == UNCHANGED <<src, toks, err, last, mode>>

StrChar ==          \* an ordinary character, `\`, `"` or `$` outside escapes and slots
    /\ InStr /\ str.st = "none"
    /\ IF Cur = 92 THEN Move(1) /\ str' = [str EXCEPT !.st = "escape"] /\ Keep
       ELSE IF Cur = 36 THEN
           IF str.interp
           THEN /\ Move(1) /\ Keep
                /\ str' = [str EXCEPT !.st = "interp", !.slotStart = Len(str.buf), !.buf = Append(@, 36)]
           ELSE LexFail("UnescapedDollar", line, col, <<>>)
       ELSE IF Cur = 34 THEN
           /\ Move(1) /\ Emit(StrTok(pos + 1)) /\ mode' = "top" /\ str' = StrInit /\ UNCHANGED <<src, err>>
       ELSE Move(1) /\ str' = [str EXCEPT !.buf = Append(@, Cur)] /\ Keep

StrEscape ==
    /\ InStr /\ str.st = "escape"
    /\ IF Cur \in {92, 34, 36} THEN Move(1) /\ str' = [str EXCEPT !.st = "none", !.buf = Append(@, Cur)] /\ Keep
       ELSE IF Cur = 110 THEN Move(1) /\ str' = [str EXCEPT !.st = "none", !.buf = Append(@, 10)] /\ Keep
       ELSE IF Cur = 114 THEN Move(1) /\ str' = [str EXCEPT !.st = "none", !.buf = Append(@, 13)] /\ Keep
       ELSE IF Cur = 120 THEN Move(1) /\ str' = [str EXCEPT !.st = "hex"] /\ Keep
       ELSE LexFail("InvalidEscapeChar", line, col, <<Cur>>)

StrHex ==
    /\ InStr /\ str.st = "hex"
    /\ IF HexVal(Cur) < 0 THEN LexFail("InvalidHexChar", line, col, <<Cur>>)
       ELSE IF str.hex < 0 THEN Move(1) /\ str' = [str EXCEPT !.hex = HexVal(Cur)] /\ Keep
       ELSE /\ Move(1) /\ Keep
            /\ str' = [str EXCEPT !.st = "none", !.hex = -1, !.buf = Append(@, str.hex * 16 + HexVal(Cur))]

\* inside `${ ... }`: everything up to the balancing `}` belongs to the slot
StrInterp ==
    /\ InStr /\ str.st = "interp"
    /\ IF str.slotStart + 1 = Len(str.buf) /\ Cur # 123
       THEN LexFail("InvalidInterpolationStart", line, col, <<Cur>>)
       ELSE LET b == str.braces + (IF Cur = 123 THEN 1 ELSE IF Cur = 125 THEN -1 ELSE 0) IN
            /\ Move(1) /\ Keep
            /\ str' = [str EXCEPT !.braces = b, !.buf = Append(@, Cur),
                                  !.st = IF b = 0 THEN "none" ELSE "interp",
                                  !.slots = IF b = 0 THEN Append(@, <<str.slotStart, Len(str.buf) + 1>>) ELSE @]

\* an unterminated literal ends at the end of the input (Decision_UnterminatedEndsAtEOF)
StrEOF ==
    /\ mode = "str" /\ AtEnd
    /\ Emit(StrTok(pos)) /\ mode' = "done" /\ str' = StrInit
    /\ UNCHANGED <<src, pos, line, col, err>>

TopEOF == /\ mode = "top" /\ AtEnd /\ mode' = "done"
          /\ UNCHANGED <<src, pos, line, col, toks, err, last, str>>

\* the user-facing text of a lexical error (pieces: fixed text / characters)
TS(x) == [p |-> "s", s |-> x]
TC(x) == [p |-> "c", c |-> x]
LexMsg(e) ==
    CASE e.k = "Unexpected" -> <<TS("unexpected '"), TC(e.ch), TS("'")>>
      [] e.k = "IntOverflow" -> <<TS("'"), TC(e.ch), TS("' is too high for an int")>>
      [] e.k = "InvalidEscapeChar" -> <<TS("'"), TC(e.ch), TS("' is not a valid escape character")>>
      [] e.k = "InvalidHexChar" -> <<TS("'"), TC(e.ch), TS("' is not a valid hex character")>>
      [] e.k = "UnescapedDollar" -> <<TS("'$' must be escaped")>>
      [] e.k = "InvalidInterpolationStart" -> <<TS("interpolation slots start with '{', got '"), TC(e.ch), TS("'")>>
      [] OTHER -> <<>>

LexTerminal == mode \in {"done", "failed"} /\ UNCHANGED lexvars

LexStep == \/ SkipBlank \/ SkipComment \/ StmtEnd \/ Word \/ IntLit \/ Sym \/ StrOpen
           \/ StrChar \/ StrEscape \/ StrHex \/ StrInterp \/ StrEOF \/ TopEOF
LexNext == LexStep \/ LexTerminal

-----------------------------------------------------------------------------
(* Invariants *)
\* every action consumes input or ends the run: the lexer cannot hang
Progress == [][LexStep => (pos' > pos \/ mode' \in {"done", "failed"})]_lexvars
\* at most one error, and it ends the run
OneError == (err.k # "none") <=> (mode = "failed")
\* every token starts inside the text, in order
TokensOrdered ==
    \A i \in 1 .. Len(toks) - 1 :
        toks[i].l < toks[i + 1].l \/ (toks[i].l = toks[i + 1].l /\ toks[i].c < toks[i + 1].c)
\* no two statement ends in a row, none at the start, none after a continuation token
StmtEndRule ==
    \A i \in 1 .. Len(toks) :
        toks[i].k = "StmtEnd" => (i > 1 /\ toks[i - 1].k \notin ContinuationToks \cup {"StmtEnd"})
\* slots lie inside the decoded literal, in order, each `${` ... `}`
SlotsWellFormed ==
    \A i \in 1 .. Len(toks) :
        \A j \in 1 .. Len(toks[i].slots) :
            LET sl == toks[i].slots[j] IN
            /\ 0 <= sl[1] /\ sl[1] + 3 <= sl[2] /\ sl[2] <= Len(toks[i].text)
            /\ toks[i].text[sl[1] + 1] = 36 /\ toks[i].text[sl[1] + 2] = 123 /\ toks[i].text[sl[2]] = 125
            /\ (j > 1 => toks[i].slots[j - 1][2] <= sl[1])
LexInv == PosInv /\ InBounds /\ LineBound /\ OneError /\ TokensOrdered /\ StmtEndRule /\ SlotsWellFormed
=============================================================================
