----------------------------- MODULE SeedLexInts -----------------------------
(* The integer-literal rules of SeedLex, as a stand-alone module (decimal     *)
(* digit sequences; no variables).                                            *)
EXTENDS Integers, Sequences
MaxIntDigits == <<57, 50, 50, 51, 51, 55, 50, 48, 51, 54, 56, 53, 52, 55, 55, 53, 56, 48, 55>>  \* 9223372036854775807
RECURSIVE SeqLeq(_, _, _)
SeqLeq(a, b, i) == IF i > Len(a) THEN TRUE ELSE IF a[i] < b[i] THEN TRUE ELSE IF a[i] > b[i] THEN FALSE
                   ELSE SeqLeq(a, b, i + 1)
RECURSIVE StripZeros(_)
StripZeros(ds) == IF Len(ds) > 1 /\ ds[1] = 48 THEN StripZeros(Tail(ds)) ELSE ds
\* the digits (without `_`) denote a value up to 2^63 - 1
FitsI64(ds) == LET z == StripZeros(ds) IN Len(z) < 19 \/ (Len(z) = 19 /\ SeqLeq(z, MaxIntDigits, 1))
=============================================================================
