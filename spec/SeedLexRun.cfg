INIT InitL
NEXT NextL
INVARIANTS
  LexInv
  EmitL
CHECK_DEADLOCK TRUE
