---------------------------- MODULE SeedLexRun ----------------------------
(* Runs the lexer machine on texts given as data (one JSON object per line of *)
(* the file named by SEED_TEXTS, field `src`: the characters as code points). *)
EXTENDS SeedLex, Json, IOUtils
Texts == ndJsonDeserialize(IOEnv.SEED_TEXTS)
VARIABLE ti
InitL == \E i \in 1 .. Len(Texts) : ti = i /\ LexInit(Texts[i].src)
NextL == LexNext /\ ti' = ti
EmitL == mode \in {"done", "failed"} =>
            PrintT("LEX " \o ToJson([ti |-> ti, toks |-> toks, err |-> err, msg |-> LexMsg(err)]))
=============================================================================
