---------------------------- MODULE SeedLexRun ----------------------------
(* Runs the lexer machine on texts given as data (one JSON object per line of *)
(* the file named by SEED_TEXTS, field `src`: the characters as code points). *)
EXTENDS SeedLex, SeedGrammar, Json, IOUtils
Texts == ndJsonDeserialize(IOEnv.SEED_TEXTS)
VARIABLE ti
InitL == \E i \in 1 .. Len(Texts) : ti = i /\ LexInit(Texts[i].src)
NextL == LexNext /\ ti' = ti
Kinds == [i \in 1 .. Len(toks) |-> toks[i].k]
\* what the front end must do with this text: accept it, or reject it at the first token
\* that cannot continue a program (or at the lexical error, if the tokens before it can)
Predicted ==
    LET v == Verdict(Kinds) IN
    IF mode = "failed"
    THEN IF v.at <= Len(toks) THEN [kind |-> "syntax", at |-> v.at] ELSE [kind |-> "lexical", at |-> 0]
    ELSE IF v.ok THEN [kind |-> "accept", at |-> 0] ELSE [kind |-> "syntax", at |-> v.at]
EmitL == mode \in {"done", "failed"} =>
            PrintT("LEX " \o ToJson([ti |-> ti, toks |-> toks, err |-> err, msg |-> LexMsg(err), parse |-> Predicted]))
=============================================================================
