------------------------------- MODULE SeedMC -------------------------------
(***************************************************************************)
(* Common frame of the bounded models: every parameter tuple of `Params`      *)
(* denotes a program (built with SeedGen) and is an initial state;         *)
(* TLC runs the evaluator machine on each and checks the invariants in     *)
(* every state.  One PROG line is printed per program and one OUTCOME line *)
(* per finished run; the replay harness renders the program, runs the real *)
(* interpreter on it and compares.                                         *)
(***************************************************************************)
EXTENDS SeedGen, Json

\* Params: the set of parameter tuples of the model (small values, all of one
\* shape); ProgOf(p): the program (statement list) a parameter tuple denotes.
\* The state carries only the tuple.
CONSTANTS Params, ProgOf(_), MaxSteps

VARIABLE pi

MCInit == \E p \in Params : pi = p /\ InitWith(LabProg(ProgOf(p)))
MCNext == Next /\ pi' = pi
mcvars == <<vars, pi>>

EmitProg == steps = 0 => PrintT("PROG " \o ToJson([pi |-> pi, body |-> LabProg(ProgOf(pi))]))
EmitOutcome ==
    status.k # "running" =>
        PrintT("OUTCOME " \o ToJson([pi |-> pi, out |-> out, status |-> status, steps |-> steps]))
Emit == EmitProg /\ EmitOutcome

Fuel == steps < MaxSteps

\* An escape in flight only ever has transparent frames between it and its
\* target, and the loop that will consume a break/continue lexically encloses
\* the statement that raised it (positions are tree paths in these models).
LoopFrames  == {"whilebody", "forbody"}
Transparent == {"seq", "scope", "blockstmt"}
LoopPath(fr) == IF fr.f = "whilebody" THEN Front(fr.st.cond.loc) ELSE Front(fr.st.iter.loc)
NearestIdx(FS) == LET js == {j \in 1 .. Len(K) : K[j].f \in FS} IN IF js = {} THEN 0 ELSE Max(js)
EscapeWellFormed ==
    /\ (c.m = "X" /\ c.x.k \in {"break", "continue"}) =>
          LET t == NearestIdx(LoopFrames \cup {"call"}) IN
          /\ \A j \in (t + 1) .. Len(K) : K[j].f \in Transparent
          /\ (t > 0 /\ K[t].f \in LoopFrames) => IsPrefix(LoopPath(K[t]), c.x.loc)
    /\ (c.m = "X" /\ c.x.k = "return") =>
          LET t == NearestIdx({"call"}) IN
          \A j \in (t + 1) .. Len(K) : K[j].f \in Transparent \cup LoopFrames

\* Heap frame conditions, as an action property: a step changes at most one
\* existing cell; cells keep their kind; lists keep their length; objects only
\* gain keys; function cells never change; allocation only appends.
HeapFrameStep ==
    /\ Len(heap') >= Len(heap)
    /\ Cardinality({i \in 1 .. Len(heap) : heap'[i] # heap[i]}) <= 1
    /\ \A i \in 1 .. Len(heap) :
          /\ heap'[i].k = heap[i].k
          /\ heap[i].k = "list" => Len(heap'[i].items) = Len(heap[i].items)
          /\ heap[i].k = "object" => DOMAIN heap[i].props \subseteq DOMAIN heap'[i].props
          /\ heap[i].k = "func" => heap'[i] = heap[i]
HeapFrame == [][HeapFrameStep]_mcvars

\* A step that produces a freshly allocated container leaves every existing
\* cell unchanged (BuildFresh): literals, spread, `+`, range read, `..`.
BuildFreshStep ==
    (c'.m = "V" /\ c'.s.v.k \in {"list", "object", "func"} /\ c'.s.v.id > Len(heap)) =>
        (Len(heap') = Len(heap) + 1 /\ SubSeq(heap', 1, Len(heap)) = heap)
BuildFresh == [][BuildFreshStep]_mcvars

\* Scopes: a step changes at most one existing scope; scopes only gain names.
ScopeFrameStep ==
    /\ Len(scopes') >= Len(scopes)
    /\ Cardinality({i \in 1 .. Len(scopes) : scopes'[i] # scopes[i]}) <= 1
    /\ \A i \in 1 .. Len(scopes) : DOMAIN scopes[i].vars \subseteq DOMAIN scopes'[i].vars
ScopeFrame == [][ScopeFrameStep]_mcvars

\* A new scope is fresh and empty (FreshPerEntry); a declaration changes only
\* the innermost scope (ShadowFrame).
FreshPerEntryStep ==
    Len(scopes') > Len(scopes) =>
        (Len(scopes') = Len(scopes) + 1 /\ scopes'[Len(scopes')].vars = <<>>
         /\ env'[Len(env')] = Len(scopes'))
FreshPerEntry == [][FreshPerEntryStep]_mcvars
ShadowFrameStep ==
    (c.m = "B" /\ c.lhs.t = "var" /\ c.bt = "decl") =>
        \A i \in 1 .. Len(scopes) : i # env[Len(env)] => scopes'[i] = scopes[i]
ShadowFrame == [][ShadowFrameStep]_mcvars

\* Output only grows, and a finished run never moves again.
OutputMonotoneStep == IsPrefix(out, out') /\ (status.k # "running" => UNCHANGED vars)
OutputMonotone == [][OutputMonotoneStep]_mcvars

\* Integer range of the replayed models.  It is wide on purpose: a replayed
\* behaviour is compared with the 64-bit implementation, so no model program may
\* leave the range (overflow behaviour itself is the business of SeedArith and of
\* the zero-divisor cases, which are width-independent).
MCMinInt == -1073741824
MCMaxInt == 1073741823
=============================================================================
