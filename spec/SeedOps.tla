------------------------------ MODULE SeedOps ------------------------------
(***************************************************************************)
(* The heap and the pure operations on values: equality, identity, the     *)
(* binary-operator table, rendering for `print`, and the iteration pairs   *)
(* of `for`.  Nothing here changes state; operations that build a          *)
(* container return the cell to allocate.                                  *)
(*                                                                         *)
(* The operator table is written from docs/features.md and the statement   *)
(* of C16: `+` two ints, two strings or two lists; `- * / %` and           *)
(* `< <= > >=` two ints; `&& ||` two bools; `== !=` structural on          *)
(* same-kind data; `=== !==` identity on two lists, two objects or two     *)
(* user functions.  Anything else is a type error naming the operator and  *)
(* both type names in order.                                               *)
(***************************************************************************)
EXTENDS SeedValues

\* Heap cells
CList(items) == [k |-> "list", items |-> items]
CObj(props)  == [k |-> "object", props |-> props]
CFn(name, params, collect, body, closure) ==
    [k |-> "func", name |-> name, params |-> params, collect |-> collect,
     body |-> body, closure |-> closure]
NoName      == [some |-> FALSE, b |-> <<>>]
SomeName(b) == [some |-> TRUE, b |-> b]

\* Message pieces (rendered to text by concatenation, nothing else)
PS(x)  == [p |-> "s", s |-> x]          \* fixed text
PB(x) == [p |-> "b", b |-> x]          \* bytes (a name, a key)
PN(x)  == [p |-> "n", n |-> x]          \* an integer in decimal
PL(x)  == [p |-> "loc", loc |-> x]      \* a source position `line:col`

ArithOps == {"+", "-", "*", "/", "%"}
OrdOps   == {"<", "<=", ">", ">="}
BoolOps  == {"&&", "||"}
EqOps    == {"==", "!="}
RefOps   == {"===", "!=="}
AllOps   == ArithOps \cup OrdOps \cup BoolOps \cup EqOps \cup RefOps

-----------------------------------------------------------------------------
(* Structural equality.  Result: [r |-> "bool", b], or [r |-> "err", path, *)
(* lt, rt] when a pair of different kinds (or two functions) is reached.   *)
(* A pair of containers that is met again while it is being compared (the  *)
(* values contain themselves) is taken as equal, so the comparison always  *)
(* terminates (Decision_CyclicEqIsCoinductive).  The traversal order is    *)
(* the documented one: identity short-cut, then length, then elements in   *)
(* index order / properties in ascending key order of the left operand.    *)

EqBool(b) == [r |-> "bool", b |-> b]

RECURSIVE EqV(_, _, _, _), EqListFrom(_, _, _, _, _), EqObjFrom(_, _, _, _, _, _)
EqV(a, b, heap, path) ==
    IF a.k = "null" /\ b.k = "null" THEN EqBool(TRUE)
    ELSE IF a.k = "bool" /\ b.k = "bool" THEN EqBool(a.b = b.b)
    ELSE IF a.k = "int" /\ b.k = "int" THEN EqBool(a.n = b.n)
    ELSE IF a.k = "string" /\ b.k = "string" THEN EqBool(a.s = b.s)
    ELSE IF a.k = "list" /\ b.k = "list" THEN
        IF a.id = b.id THEN EqBool(TRUE)
        ELSE IF <<a.id, b.id>> \in path THEN EqBool(TRUE)
        ELSE LET xs == heap[a.id].items
                 ys == heap[b.id].items
             IN  IF Len(xs) # Len(ys) THEN EqBool(FALSE)
                 ELSE EqListFrom(xs, ys, 1, heap, path \cup {<<a.id, b.id>>})
    ELSE IF a.k = "object" /\ b.k = "object" THEN
        IF a.id = b.id THEN EqBool(TRUE)
        ELSE IF <<a.id, b.id>> \in path THEN EqBool(TRUE)
        ELSE LET xs == heap[a.id].props
                 ys == heap[b.id].props
             IN  IF Cardinality(DOMAIN xs) # Cardinality(DOMAIN ys) THEN EqBool(FALSE)
                 ELSE EqObjFrom(xs, ys, SortKeys(DOMAIN xs), 1, heap,
                                path \cup {<<a.id, b.id>>})
    ELSE [r |-> "err", path |-> <<>>, lt |-> TypeName(a), rt |-> TypeName(b)]

EqListFrom(xs, ys, i, heap, path) ==
    IF i > Len(xs) THEN EqBool(TRUE)
    ELSE LET r == EqV(xs[i].v, ys[i].v, heap, path)
         IN  IF r.r = "err"
             THEN [r EXCEPT !.path = <<PS("["), PN(i - 1), PS("]")>> \o r.path]
             ELSE IF ~r.b THEN r
             ELSE EqListFrom(xs, ys, i + 1, heap, path)

EqObjFrom(xs, ys, keys, i, heap, path) ==
    IF i > Len(keys) THEN EqBool(TRUE)
    ELSE LET key == keys[i] IN
         IF key \notin DOMAIN ys THEN EqBool(FALSE)
         ELSE LET r == EqV(xs[key].v, ys[key].v, heap, path)
              IN  IF r.r = "err"
                  THEN [r EXCEPT !.path = <<PS(".'"), PB(key), PS("'")>> \o r.path]
                  ELSE IF ~r.b THEN r
                  ELSE EqObjFrom(xs, ys, keys, i + 1, heap, path)

Eq(a, b, heap) == EqV(a, b, heap, {})

\* Identity: defined on two lists, two objects, two user functions.
RefEqDefined(a, b) == a.k = b.k /\ a.k \in {"list", "object", "func"}
RefEq(a, b) == a.id = b.id

-----------------------------------------------------------------------------
(* Binary operators.  Result:                                              *)
(*   [r |-> "val", v]      a value that needs no allocation                *)
(*   [r |-> "alloc", cell] a fresh container to allocate                   *)
(*   [r |-> "err", kind, msg]                                              *)

OpVal(v) == [r |-> "val", v |-> v]
OpErr(kind, msg) == [r |-> "err", kind |-> kind, msg |-> msg]

InvalidOpTypes(op, a, b) ==
    OpErr("InvalidOpTypes",
          <<PS("can't apply '"), PS(op), PS("' to '"), PS(TypeName(a)), PS("' and '"),
            PS(TypeName(b)), PS("'")>>)

IntOverflow(op, a, b) ==
    OpErr("IntOverflow",
          <<PS("'"), PN(a), PS(" "), PS(op), PS(" "), PN(b), PS("' caused an integer overflow")>>)

ApplyOp(op, a, b, heap) ==
    IF op \in EqOps THEN
        LET r == Eq(a, b, heap) IN
        IF r.r = "bool" THEN OpVal(VBool(IF op = "==" THEN r.b ELSE ~r.b))
        ELSE OpErr("InvalidEqOpTypes",
                   <<PS("can't apply '"), PS(op), PS("' to '"), PS(r.lt), PS("' and '"),
                     PS(r.rt), PS("'")>>
                   \o (IF r.path = <<>> THEN <<>>
                       ELSE <<PS(" (at ")>> \o r.path \o <<PS(")")>>))
    ELSE IF op \in RefOps THEN
        IF RefEqDefined(a, b)
        THEN OpVal(VBool(IF op = "===" THEN RefEq(a, b) ELSE ~RefEq(a, b)))
        ELSE InvalidOpTypes(op, a, b)
    ELSE IF op = "+" /\ a.k = "string" /\ b.k = "string" THEN OpVal(VStr(a.s \o b.s))
    ELSE IF op = "+" /\ a.k = "list" /\ b.k = "list"
        THEN [r |-> "alloc", cell |-> CList(heap[a.id].items \o heap[b.id].items)]
    ELSE IF op \in ArithOps THEN
        IF a.k = "int" /\ b.k = "int" THEN
            IF ArithDefined(op, a.n, b.n) /\ ArithFits(op, a.n, b.n)
            THEN OpVal(VInt(ArithExact(op, a.n, b.n)))
            ELSE IntOverflow(op, a.n, b.n)
        ELSE InvalidOpTypes(op, a, b)
    ELSE IF op \in OrdOps THEN
        IF a.k = "int" /\ b.k = "int" THEN
            OpVal(VBool(CASE op = "<"  -> a.n < b.n
                          [] op = "<=" -> a.n <= b.n
                          [] op = ">"  -> a.n > b.n
                          [] op = ">=" -> a.n >= b.n))
        ELSE InvalidOpTypes(op, a, b)
    ELSE \* && ||   (both operands are always evaluated: Decision_NoShortCircuit)
        IF a.k = "bool" /\ b.k = "bool"
        THEN OpVal(VBool(IF op = "&&" THEN a.b /\ b.b ELSE a.b \/ b.b))
        ELSE InvalidOpTypes(op, a, b)

-----------------------------------------------------------------------------
(* Rendering for `print`: a function of the structure of the value only.   *)
(* Result [ok |-> TRUE, b |-> bytes] or [ok |-> FALSE, why |-> "utf8" |     *)
(* "cyclic"].                                                              *)

ROk(b) == [ok |-> TRUE, b |-> b]
RBad(why) == [ok |-> FALSE, why |-> why]

\* every newline of a rendered child is followed by one more level of indentation
IndentNl(bs) == JoinWith(SplitNl(bs), T_nlindent)

RECURSIVE RenderV(_, _, _), RenderItems(_, _, _, _, _), RenderProps(_, _, _, _, _, _)
RenderV(v, heap, path) ==
    CASE v.k = "null"    -> ROk(T_null)
      [] v.k = "bool"    -> ROk(IF v.b THEN T_true ELSE T_false)
      [] v.k = "int"     -> ROk(DecBytes(v.n))
      [] v.k = "string"  -> IF ValidUtf8(v.s) THEN ROk(v.s) ELSE RBad("utf8")
      [] v.k = "list"    -> IF v.id \in path THEN RBad("cyclic")
                            ELSE RenderItems(heap[v.id].items, 1, heap, path \cup {v.id}, T_lopen)
      [] v.k = "object"  -> IF v.id \in path THEN RBad("cyclic")
                            ELSE RenderProps(heap[v.id].props, SortKeys(DOMAIN heap[v.id].props),
                                             1, heap, path \cup {v.id}, T_oopen)
      [] v.k = "builtin" -> ROk(T_bfn_open \o v.name \o T_fn_close)
      [] v.k = "func"    -> LET nm == heap[v.id].name IN
                            ROk(T_fn_open
                                \o (IF nm.some THEN T_some_open \o nm.b \o T_some_close ELSE T_none)
                                \o T_fn_close)

RenderItems(items, i, heap, path, acc) ==
    IF i > Len(items) THEN ROk(acc \o T_lclose)
    ELSE LET r == RenderV(items[i].v, heap, path) IN
         IF ~r.ok THEN r
         ELSE RenderItems(items, i + 1, heap, path,
                          acc \o T_indent \o IndentNl(r.b) \o T_commanl)

RenderProps(props, keys, i, heap, path, acc) ==
    IF i > Len(keys) THEN ROk(acc \o T_oclose)
    ELSE LET r == RenderV(props[keys[i]].v, heap, path) IN
         IF ~r.ok THEN r
         ELSE RenderProps(props, keys, i + 1, heap, path,
                          acc \o T_indent \o T_quote \o keys[i] \o T_quotecolon
                              \o IndentNl(r.b) \o T_commanl)

Render(v, heap) == RenderV(v, heap, {})

-----------------------------------------------------------------------------
(* The snapshot a `for` loop walks: list elements by index, string bytes   *)
(* in order, object properties by ascending key.  Elements keep the        *)
(* provenance they were stored with (Decision_ForKeepsStoredProvenance).   *)

Iterable(v) == v.k \in {"string", "list", "object"}

ForPairs(v, heap) ==
    CASE v.k = "string" -> [i \in 1 .. Len(v.s) |-> <<Slot(VInt(i - 1)), Slot(VStr(<<v.s[i]>>))>>]
      [] v.k = "list"   -> LET xs == heap[v.id].items IN
                           [i \in 1 .. Len(xs) |-> <<Slot(VInt(i - 1)), xs[i]>>]
      [] v.k = "object" -> LET ps == heap[v.id].props
                               ks == SortKeys(DOMAIN ps) IN
                           [i \in 1 .. Len(ks) |-> <<Slot(VStr(ks[i])), ps[ks[i]]>>]

=============================================================================
