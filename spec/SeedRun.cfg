INIT InitR
NEXT NextR
CONSTANTS
  MinInt <- RunMinInt
  MaxInt <- RunMaxInt
INVARIANTS
  Emit
  HeapClosed
  UnderscoreNeverInScope
  FailureIsLocated
  KeysAreText
CONSTRAINT Fuel
CHECK_DEADLOCK TRUE
