------------------------------ MODULE SeedRun ------------------------------
(***************************************************************************)
(* Runs the evaluator machine on programs given as data: one JSON object   *)
(* per line of the file named by the environment variable SEED_PROGS, each *)
(* with a field `body` (the statement list, in the AST encoding of the     *)
(* `seed_verif` AST dump).  Every program is a separate initial state; a   *)
(* finished run prints one OUTCOME line.                                   *)
(***************************************************************************)
EXTENDS SeedEval, Json, IOUtils

Progs == ndJsonDeserialize(IOEnv.SEED_PROGS)

VARIABLE pi

\* The integer range of this model (TLC integers are 32-bit; see SeedArith for the true width).
RunMinInt == -1073741824
RunMaxInt == 1073741823

InitR == \E i \in 1 .. Len(Progs) : pi = i /\ InitWith(Progs[i].body)
NextR == Next /\ pi' = pi

Outcome == [pi |-> pi, out |-> out, status |-> status, steps |-> steps]
Emit == status.k # "running" => PrintT("OUTCOME " \o ToJson(Outcome))

MaxSteps == 5000
\* values stay small (a run that builds huge values is outside this model)
\* (also: the number of cells, scopes, pending frames and printed lines -- a run whose states grow without bound
\* costs more per step than the whole of an ordinary corpus)
SizeOk == /\ \A i \in 1 .. Len(heap) : heap[i].k = "list" => Len(heap[i].items) <= 400
          /\ Len(heap) <= 700 /\ Len(K) <= 350 /\ Len(scopes) <= 1500 /\ Len(out) <= 500
Fuel == steps < MaxSteps /\ SizeOk
OutOfFuel == (steps >= MaxSteps - 1 /\ status.k = "running") => PrintT("OUTCOME " \o ToJson([pi |-> pi, out |-> out, status |-> [k |-> "fuel"], steps |-> steps]))
=============================================================================
