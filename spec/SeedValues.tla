---------------------------- MODULE SeedValues ----------------------------
(***************************************************************************)
(* Values of the Seed language, as the specification sees them.            *)
(*                                                                         *)
(* Every Seed string, identifier, property name and printed text is a      *)
(* sequence of bytes (naturals 0..255): indexing, range-indexing, `for`    *)
(* and `->len()` are defined on bytes (docs/features.md "Indexing"), so    *)
(* bytes are the honest carrier.  A value is a record whose field `k` is   *)
(* its kind; containers and user functions are references (`id`) into the  *)
(* heap, which is what makes aliasing and identity (`===`) expressible.    *)
(* A slot is a value together with its provenance `src` -- the object (or, *)
(* for `->`, the value) it was last read from -- which is what `this`      *)
(* follows (docs/features.md "this": "the evaluation context is carried by *)
(* variables").                                                            *)
(***************************************************************************)
EXTENDS Integers, Sequences, FiniteSets, TLC, SequencesExt, FiniteSetsExt, SeedText

CONSTANTS MinInt, MaxInt      \* the representable integer range (true width: -2^63, 2^63-1)

NoSrc      == [k |-> "none"]
VNull      == [k |-> "null"]
VBool(b)   == [k |-> "bool", b |-> b]
VInt(n)    == [k |-> "int", n |-> n]
VStr(s)    == [k |-> "string", s |-> s]
VList(id)  == [k |-> "list", id |-> id]
VObj(id)   == [k |-> "object", id |-> id]
VFn(id)    == [k |-> "func", id |-> id]
VBuiltin(name) == [k |-> "builtin", name |-> name]

Slot(v)       == [v |-> v, src |-> NoSrc]
SlotS(v, src) == [v |-> v, src |-> src]

Kinds == {"null", "bool", "int", "string", "list", "object", "func", "builtin"}

\* The user-visible type name: what `v->type()` returns and what diagnostics
\* print.  Both function kinds are `func`.
TypeName(v) == IF v.k = "builtin" THEN "func" ELSE v.k

TypeNameBytes(v) ==
    CASE v.k = "null"    -> N_null
      [] v.k = "bool"    -> N_bool
      [] v.k = "int"     -> N_int
      [] v.k = "string"  -> N_string
      [] v.k = "list"    -> N_list
      [] v.k = "object"  -> N_object
      [] v.k = "func"    -> N_func
      [] v.k = "builtin" -> N_func

IsRef(v) == v.k \in {"list", "object", "func"}

-----------------------------------------------------------------------------
(* Byte strings *)

RECURSIVE Utf8From(_, _)
Utf8From(s, i) ==
    IF i > Len(s) THEN TRUE
    ELSE LET b == s[i]
             cont(j)        == j <= Len(s) /\ s[j] >= 128 /\ s[j] <= 191
             inr(j, lo, hi) == j <= Len(s) /\ s[j] >= lo /\ s[j] <= hi
         IN  IF b <= 127 THEN Utf8From(s, i + 1)
             ELSE IF b >= 194 /\ b <= 223 THEN cont(i+1) /\ Utf8From(s, i + 2)
             ELSE IF b = 224 THEN inr(i+1, 160, 191) /\ cont(i+2) /\ Utf8From(s, i + 3)
             ELSE IF (b >= 225 /\ b <= 236) \/ b = 238 \/ b = 239
                  THEN cont(i+1) /\ cont(i+2) /\ Utf8From(s, i + 3)
             ELSE IF b = 237 THEN inr(i+1, 128, 159) /\ cont(i+2) /\ Utf8From(s, i + 3)
             ELSE IF b = 240 THEN inr(i+1, 144, 191) /\ cont(i+2) /\ cont(i+3) /\ Utf8From(s, i + 4)
             ELSE IF b >= 241 /\ b <= 243 THEN cont(i+1) /\ cont(i+2) /\ cont(i+3) /\ Utf8From(s, i + 4)
             ELSE IF b = 244 THEN inr(i+1, 128, 143) /\ cont(i+2) /\ cont(i+3) /\ Utf8From(s, i + 4)
             ELSE FALSE

\* Well-formed UTF-8 (RFC 3629): no overlong forms, no surrogates, <= U+10FFFF.
ValidUtf8(s) == Utf8From(s, 1)

RECURSIVE BytesLessFrom(_, _, _)
BytesLessFrom(a, b, i) ==
    IF i > Len(b) THEN FALSE
    ELSE IF i > Len(a) THEN TRUE
    ELSE IF a[i] < b[i] THEN TRUE
    ELSE IF a[i] > b[i] THEN FALSE
    ELSE BytesLessFrom(a, b, i + 1)

\* Ascending key order = lexicographic order of the bytes.
BytesLess(a, b) == BytesLessFrom(a, b, 1)

SortKeys(S) == SetToSortSeq(S, BytesLess)

Concat(seqs) == FlattenSeq(seqs)

\* bytes split at newlines / joined with a separator (recursion depth = number of lines)
RECURSIVE SplitNl(_)
SplitNl(bs) ==
    IF \A i \in 1 .. Len(bs) : bs[i] # 10 THEN <<bs>>
    ELSE LET i == CHOOSE j \in 1 .. Len(bs) : bs[j] = 10 /\ \A kx \in 1 .. j - 1 : bs[kx] # 10 IN
         <<SubSeq(bs, 1, i - 1)>> \o SplitNl(SubSeq(bs, i + 1, Len(bs)))
RECURSIVE JoinWith(_, _)
JoinWith(ls, sep) == IF Len(ls) = 1 THEN ls[1] ELSE ls[1] \o sep \o JoinWith(Tail(ls), sep)

RECURSIVE DecNat(_)
DecNat(n) == IF n < 10 THEN <<48 + n>> ELSE DecNat(n \div 10) \o <<48 + (n % 10)>>

\* Decimal rendering of an integer.
DecBytes(n) == IF n < 0 THEN <<45>> \o DecNat(-n) ELSE DecNat(n)

-----------------------------------------------------------------------------
(* Integer arithmetic: exact, or an overflow report.  Division truncates   *)
(* toward zero; the remainder takes the dividend's sign.                   *)

Abs(n) == IF n < 0 THEN -n ELSE n
TDiv(a, b) == LET q == Abs(a) \div Abs(b) IN IF (a < 0) # (b < 0) THEN -q ELSE q
TRem(a, b) == a - b * TDiv(a, b)
Fits(n) == MinInt <= n /\ n <= MaxInt

\* Does the exact product fit?  (Written without computing a product that
\* would exceed the range: TLC's own integers are 32-bit.)
MulFits(a, b) ==
    \/ a = 0 \/ b = 0
    \/ IF (a < 0) = (b < 0) THEN Abs(a) <= MaxInt \div Abs(b)
                            ELSE Abs(a) <= (-MinInt) \div Abs(b)

ArithDefined(op, a, b) == ~(op \in {"/", "%"} /\ b = 0)
ArithExact(op, a, b) ==
    CASE op = "+" -> a + b
      [] op = "-" -> a - b
      [] op = "*" -> a * b
      [] op = "/" -> TDiv(a, b)
      [] op = "%" -> TRem(a, b)
ArithFits(op, a, b) == IF op = "*" THEN MulFits(a, b) ELSE Fits(ArithExact(op, a, b))

=============================================================================
