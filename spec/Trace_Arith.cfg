INIT Init
NEXT Next
INVARIANT Report
CHECK_DEADLOCK FALSE
