----------------------------- MODULE Trace_Arith -----------------------------
(***************************************************************************)
(* Validates observations of the real interpreter's 64-bit arithmetic      *)
(* against the laws of C06, with exact integers (BigInt).  One observation *)
(* per line of the file named by SEED_OBS; every observation that the laws *)
(* do not allow is reported on a BADOBS line.                              *)
(***************************************************************************)
EXTENDS BigInt, SeedLexInts, Json, IOUtils, TLC

Obs == ndJsonDeserialize(IOEnv.SEED_OBS)

Exact(op, a, b) == CASE op = "+" -> Add(a, b) [] op = "-" -> Sub(a, b) [] op = "*" -> Mul(a, b)
MinusOne == [neg |-> TRUE, mag |-> <<1>>]

AllowedArith(o) ==
    LET e == Exact(o.op, o.a, o.b) IN
    IF InI64(e) THEN o.res = "value" /\ o.r = e ELSE o.res = "overflow"

\* quotient and remainder are verified by their postcondition
AllowedDivMod(o) ==
    IF IsZero(o.b) THEN o.qres = "overflow" /\ o.rres = "overflow"
    ELSE IF o.a = MinI64 /\ o.b = MinusOne THEN o.qres = "overflow" /\ o.rres = "value" /\ IsZero(o.r)
    ELSE /\ o.qres = "value" /\ o.rres = "value"
         /\ o.a = Add(Mul(o.q, o.b), o.r)
         /\ MagCmp(o.r.mag, o.b.mag) < 0
         /\ (IsZero(o.r) \/ o.r.neg = o.a.neg)
         /\ InI64(o.q) /\ WellFormed(o.q) /\ WellFormed(o.r)

AllowedCmp(o) ==
    LET cx == Cmp(o.a, o.b) IN
    o.rb = (CASE o.op = "<" -> cx < 0 [] o.op = "<=" -> cx <= 0 [] o.op = ">" -> cx > 0
              [] o.op = ">=" -> cx >= 0 [] o.op = "==" -> cx = 0 [] o.op = "!=" -> cx # 0)

\* a .. b : ascending, starts at a, max(0, b - a) elements
AllowedRange(o) ==
    /\ \A i \in 1 .. Len(o.items) : o.items[i] = Add(o.a, Of(i - 1)) /\ Cmp(o.items[i], o.b) < 0
    /\ (Cmp(o.a, o.b) >= 0 => o.items = <<>>)
    /\ (Cmp(o.a, o.b) < 0 => Add(o.a, Of(Len(o.items))) = o.b)

\* literals: digits with `_` separators denote their decimal value up to 2^63 - 1
AllowedLiteral(o) ==
    LET ds == SelectSeq(o.digits, LAMBDA ch : ch # 95) IN
    IF FitsI64(ds) THEN o.accepted /\ o.printed = StripZeros(ds) ELSE ~o.accepted

\* three operands: the written grouping is evaluated; an intermediate result that does not fit stops the
\* evaluation even when the final value would fit
AllowedNested(o) ==
    LET inner == IF o.right THEN Exact(o.op2, o.b, o.c) ELSE Exact(o.op1, o.a, o.b)
        outer == IF o.right THEN Exact(o.op1, o.a, inner) ELSE Exact(o.op2, inner, o.c) IN
    IF InI64(inner) /\ InI64(outer) THEN o.res = "value" /\ o.r = outer ELSE o.res = "overflow"

Allowed(o) ==
    CASE o.kind = "arith" -> AllowedArith(o)
      [] o.kind = "nested" -> AllowedNested(o)
      [] o.kind = "divmod" -> AllowedDivMod(o)
      [] o.kind = "cmp" -> AllowedCmp(o)
      [] o.kind = "range" -> AllowedRange(o)
      [] o.kind = "literal" -> AllowedLiteral(o)

VARIABLE oi
Init == oi \in 1 .. Len(Obs)
Next == UNCHANGED oi
Report == Allowed(Obs[oi]) \/ PrintT("BADOBS " \o ToString(oi))
=============================================================================
