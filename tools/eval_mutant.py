#!/usr/bin/env python3
"""Confirms a seeded change and runs checks against it.

usage: tools/eval_mutant.py <worktree> <mutant dir name> <property id> [check ids...]

1. in the scratch worktree: applies the patch, builds, runs the complete test suite,
   runs the demonstration with and without the change (must differ);
2. applies the patch to /repo, runs the given quick checks (default: the property's
   own), restores /repo and the evidence files;
3. records everything in /verif/seeded/<property>-<mutant>/ (patch.diff, demonstration,
   meta.json)."""
import json, os, shutil, subprocess, sys, time

wt, mname, prop = sys.argv[1], sys.argv[2], sys.argv[3]
checks = sys.argv[4:] or [prop]
tier = os.environ.get("TIER", "quick")
md = os.path.join(wt, "mutants", mname)
patch = os.path.join(md, "patch.diff")
meta = {"property": prop, "mutant": mname, "origin": "independent sub-agent given only the property text and a scratch worktree",
        "checks_run": checks, "tier": tier}


def sh(cmd, cwd=None, timeout=1800):
    p = subprocess.run(cmd, cwd=cwd, shell=True, stdout=subprocess.PIPE, stderr=subprocess.STDOUT, timeout=timeout)
    return p.returncode, p.stdout.decode(errors="replace")


def demo(exe, d):
    p = subprocess.run([exe, "demo.sd"], cwd=d, stdout=subprocess.PIPE, stderr=subprocess.PIPE, timeout=30)
    return {"exit": p.returncode, "stdout": p.stdout.decode(errors="replace"), "stderr": p.stderr.decode(errors="replace")}


# 1. confirm in the scratch worktree
sh("git checkout -- . ", cwd=wt)
rc, out = sh("cargo build --offline --quiet 2>&1 | tail -3", cwd=wt)
base = demo(os.path.join(wt, "target/debug/seed"), md)
rc, out = sh("git apply %s" % patch, cwd=wt)
if rc != 0:
    print("patch does not apply:", out); sys.exit(2)
rc, out = sh("cargo build --offline --quiet 2>&1 | tail -3", cwd=wt)
meta["compiles"] = rc == 0 and "error" not in out
rc, out = sh("cargo test --offline 2>&1 | grep -E '^test result|FAILED' ", cwd=wt)
meta["tests"] = out.strip().splitlines()
meta["tests_pass"] = "FAILED" not in out and "0 failed" in out and out.count("test result: ok") >= 2
mut = demo(os.path.join(wt, "target/debug/seed"), md)
sh("git checkout -- .", cwd=wt)
meta["demo_without_change"] = base
meta["demo_with_change"] = mut
meta["demo_differs"] = base != mut
print("confirm: compiles=%s tests_pass=%s demo_differs=%s" % (meta["compiles"], meta["tests_pass"], meta["demo_differs"]))
if not (meta["compiles"] and meta["tests_pass"] and meta["demo_differs"]):
    print(json.dumps(meta, indent=1)[:2000]); sys.exit(3)

# 2. run the checks against it
rc, out = sh("git -C /repo diff --quiet")
if rc != 0:
    print("/repo has uncommitted changes"); sys.exit(2)
rc, out = sh("git -C /repo apply %s" % patch)
if rc != 0:
    print("patch does not apply to /repo:", out); sys.exit(2)
meta["results"] = {}
try:
    for cid in checks:
        t0 = time.time()
        rc, out = sh("./check %s --tier %s" % (cid, tier), cwd="/verif", timeout=3600)
        viol = [l for l in out.splitlines() if l.startswith("VIOLATION")]
        first = [l for l in out.splitlines() if l.startswith("  ")][:2]
        meta["results"][cid] = {"exit": rc, "violation_lines": len(viol), "first": first, "wall_s": round(time.time() - t0)}
        print("check %s: exit=%d violations=%d %s" % (cid, rc, len(viol), first[:1]))
finally:
    sh("git -C /repo checkout -- .")
    sh("git -C /verif checkout -- evidence")
meta["detected_by"] = [c for c, r in meta["results"].items() if r["exit"] == 1]

# 3. record
dst = os.path.join("/verif/seeded", "%s-%s%s" % (prop, os.environ.get("ROUND", ""), mname))
os.makedirs(dst, exist_ok=True)
for f in ("patch.diff", "demo.sd", "demo.expected", "demo.mutant", "notes.md"):
    if os.path.exists(os.path.join(md, f)):
        shutil.copy(os.path.join(md, f), os.path.join(dst, f))
old = {}
if os.path.exists(os.path.join(dst, "meta.json")):
    old = json.load(open(os.path.join(dst, "meta.json")))
    res = old.get("results", {})
    res.update(meta["results"])
    meta["results"] = res
    meta["detected_by"] = sorted(set(old.get("detected_by", [])) | set(meta["detected_by"]))
    meta["checks_run"] = sorted(set(old.get("checks_run", [])) | set(checks))
json.dump(meta, open(os.path.join(dst, "meta.json"), "w"), indent=1)
print("recorded in", dst, "detected_by", meta["detected_by"])
