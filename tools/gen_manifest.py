#!/usr/bin/env python3
"""Writes MANIFEST.json from the registry of implemented checks."""
import json
import os
import sys

ROOT = os.path.dirname(os.path.dirname(os.path.abspath(__file__)))
sys.path.insert(0, os.path.join(ROOT, "lib"))
import checks  # noqa: E402

TECH = "TLA+ specification (SeedEval machine) model-checked with TLC; TLC-generated behaviours replayed " \
       "into the real interpreter and recorded executions validated against the specification"

TEXT = {
    "C01": ("TLC runs the evaluator machine (spec/SeedEval.tla: the executable reading of docs/features.md) on "
            "every program of a feature-composition generator (outer x inner x payload, all pairs of constructs) "
            "and checks the machine invariants in every state; every behaviour is replayed byte-exactly against the "
            "real CLI under several layouts, the real parser's tree must equal the generated tree, and the "
            "repository's own test scripts, the documentation examples and seeded random programs are executed in "
            "the specification and compared with the real run.", "§5 C01"),
    "C02": ("The specification is total (deadlock checking on: every reachable state has a step or a reported "
            "diagnostic). TLC enumerates alias shapes (same container twice, container in itself / in its "
            "comparand, shared child) x hazard operations, zero and extreme integers, non-ASCII text; each is "
            "replayed and, independently of the prediction, exit 101 / signal / panic text is a violation.",
            "§5 C02"),
    "C03": ("SeedLex.tla models the scanner and lexer character by character; TLC enumerates all strings over "
            "the branch alphabet to a bound and checks position, progress and single-error invariants; the real "
            "token stream (token-dump hook) must equal the specification's for every string, and the CLI outcome "
            "on every string, truncation and mutation must follow the front-end protocol (SeedFrontEnd.tla).",
            "§5 C03"),
    "C04": ("TLC enumerates all short sequences of scope operations over two names (declare, assign, read, "
            "block, loop, define, call, returned closure, recursion) and checks lexical-resolution invariants in "
            "every state; programs and their consistent renamings are replayed and must print the same.", "§5 C04"),
    "C05": ("TLC enumerates alias / copy-build / mutate / observe histories over three variables and checks frame "
            "conditions (a write changes one cell; a build returns a fresh cell) as action properties; histories "
            "are replayed with full observation of every variable and every === pair.", "§5 C05"),
    "C06": ("SeedArith.tla states the arithmetic laws over mathematical integers; TLC checks them exhaustively "
            "at 8 bits; the real 64-bit interpreter's results on the boundary grid and random pairs are validated "
            "in TLC through limb arithmetic (BigInt.tla, Trace_Arith.tla).", "§5 C06"),
    "C07": ("TLC enumerates every nesting (depth 1-2 exhaustively, depth 3 in the thorough tier) of block / if / "
            "else-if / while / for-list / for-string / for-object / call with break / continue / return at every "
            "position and marker prints around every statement, checks the escape invariants in every state, and "
            "every behaviour is replayed byte-exactly (stdout = exactly the statements that ran).", "§5 C07"),
    "C08": ("SeedExprParse.tla is an operator-precedence machine with the tier table of the property; TLC checks "
            "uniqueness / round-trip / parenthesis laws for all operator sequences to a bound; the real parser's "
            "tree (AST-dump hook) must equal the specification's tree for every enumerated token string.",
            "§5 C08"),
    "C09": ("SeedLex.tla with the continuation-token list of the property; TLC enumerates token sequences x "
            "separators; token dump must equal the model; every generated program is re-rendered under seeded "
            "layouts and must behave identically, with diagnostics at the moved position.", "§5 C09"),
    "C10": ("TLC compares all ordered pairs (thorough: triples) of a pool of small nested values built along "
            "several histories and checks the equivalence laws and CompareFrame as invariants; each pair is "
            "replayed as a program that compares both ways and prints all operands afterwards.", "§5 C10"),
    "C11": ("TLC enumerates every list/string to length 4-5 x every index/bound in [-2, len+2] and omitted, for "
            "read, slice, concatenation, index and range assignment, checks the sequence laws as invariants, and "
            "every case is replayed.", "§5 C11"),
    "C12": ("TLC enumerates short histories of insert / overwrite / op-assign / read / spread / iterate over a "
            "key alphabet through both access paths and all insertion orders; map laws and order-independence are "
            "invariants; every history is replayed.", "§5 C12"),
    "C13": ("TLC enumerates patterns (depth 2, width 3-4) x source values x the four binding positions and all "
            "argument splits; round-trip laws are invariants; every case is replayed.", "§5 C13"),
    "C14": ("TLC enumerates define / attach / read-through-path / move / call histories with provenance tracked "
            "on every slot; ThisIsReadSource and the parameter-freshness laws are invariants; every history is "
            "replayed.", "§5 C14"),
    "C15": ("SeedLex string modes + the machine's interpolation actions; TLC enumerates literal bodies over an "
            "alphabet of ASCII, escapes, 2-4 byte characters, braces and `$` with 0-3 slots; decode and "
            "concatenation laws are invariants; token dump and replay bind the code.", "§5 C15"),
    "C16": ("The full finite matrix: every binary operator x every ordered pair of the 8 value kinds in plain and "
            "op-assign form, every typed context x every kind; the type table is an invariant of the model and "
            "every cell is replayed on every run.", "§5 C16"),
    "C17": ("Every error kind raised at every hosting syntactic position at call depth 0-3/5 after 0-2 completed "
            "prints; SeedDiag renders the complete stderr; Located / prefix / stack-trace invariants; replayed "
            "byte-exactly, plus a specification-independent form check of stderr.", "§5 C17"),
    "C18": ("Positions: SeedLex's incremental bookkeeping equals the declarative position in every state; the "
            "renderer's own record of where it wrote each anchor token is the oracle for every token, every AST "
            "node and every diagnostic under seeded layouts.", "§5 C18"),
    "C19": ("In the machine every state has exactly one successor (determinism is checked); printing is a "
            "recursive function of structure; generated programs are run repeatedly under varied environments "
            "and must equal the specification's single prediction.", "§5 C19"),
    "C20": ("TLC enumerates all short sequences of declare (six entry points) / redeclare / assign / op-assign / "
            "read / scope enter-exit over {x, y, _} and every non-bindable kind in every binding position; "
            "declaration-table invariants in every state; every sequence is replayed.", "§5 C20"),
}

NOTE = ("Bounded: exhaustive only within the stated bounds (evidence lists them); beyond, seeded random walks. "
        "Trusted: TLC/SANY/CommunityModules, the Python harness (renderer is checked by the real parser's AST round "
        "trip), the seed_verif dump hooks (observation only, add-only), rustc/cargo.")

m = {
    "version": 1,
    "setup_cmd": "./setup.sh",
    "hooks": {
        "guard": "seed_verif",
        "enable": "RUSTFLAGS='--cfg seed_verif --check-cfg cfg(seed_verif)' cargo build --offline "
                  "(CARGO_TARGET_DIR=/verif/work/target-hooked); the checks do this themselves",
        "baseline_off_cmd": "cd /repo && cargo test --workspace --no-fail-fast --offline",
        "source_commits": ["bf47485", "25a7ee0", "4a4f3be"],
        "add_only": True,
    },
    "engines": [
        {"name": "tlc", "path": "spec/", "serves_properties": sorted(checks.REGISTRY),
         "kind_free_text": "explicit-state model checking of the TLA+ specification of the Seed pipeline"},
        {"name": "replay+trace-validation", "path": "lib/", "serves_properties": sorted(checks.REGISTRY),
         "kind_free_text": "conformance of the real interpreter with the specification, both directions"},
    ],
    "checks": [],
    "not_applicable": [],
    "notes": "All checks: ./check <id> --tier quick|thorough ; known findings in known_findings.json ; "
             "design and per-property bounds in DESIGN.md.",
}
for pid in sorted(TEXT):
    if pid in checks.REGISTRY:
        m["checks"].append({
            "property_id": pid,
            "quick_cmd": "./check %s --tier quick" % pid,
            "thorough_cmd": "./check %s --tier thorough" % pid,
            "evidence_file": "evidence/%s.json" % pid,
            "replay_cmd_template": "./check %s --replay {path}" % pid,
            "engine": "tlc",
            "level_claimed": {"category": "model_checking", "text": TEXT[pid][0], "design_ref": TEXT[pid][1]},
            "level_note": NOTE,
            "technique": TECH,
        })
    else:
        m["not_applicable"].append({"property_id": pid,
                                    "reason": "check not built yet (to be decided with the TLA+ specification "
                                              "as DESIGN.md section 5 describes)"})
json.dump(m, open(os.path.join(ROOT, "MANIFEST.json"), "w"), indent=1)
print("claimed:", [c["property_id"] for c in m["checks"]])
