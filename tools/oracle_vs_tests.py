#!/usr/bin/env python3
"""Executes the repository's own test scripts in the specification and compares
the specification's stdout / stderr / exit with the authors' expectation."""
import sys, os, json
sys.path.insert(0, os.path.join(os.path.dirname(os.path.abspath(__file__)), "..", "lib"))
import seedverif as sv

tests = sv.load_repo_tests()
hooked = sv.build(True)
d = sv.scratch("corpus")
for t in tests:
    os.makedirs(os.path.join(d, t["file"]), exist_ok=True)
    open(os.path.join(d, t["path"]), "w", encoding="utf-8").write(t["src"])
res = sv.pmap(lambda t: sv.dump(hooked, d, t["path"]), tests)
bodies, idx, skipped = [], [], []
for t, (evs, so, se, code) in zip(tests, res):
    b = sv.ast_of(evs)
    if b is None:
        skipped.append((t["path"], "no-ast"))
        continue
    if not sv.in_model(b):
        skipped.append((t["path"], "big-int"))
        continue
    bodies.append(b); idx.append(t)
outs, stats = sv.spec_eval(bodies, "corpus")
bad = 0
for t, o in zip(idx, outs):
    if o is None:
        print("NO OUTCOME", t["path"]); bad += 1; continue
    if o["status"]["k"] == "fuel":
        print("FUEL", t["path"]); continue
    exp = sv.expected(o, t["path"])
    if not sv.matches(exp, t["stdout"].encode(), t["stderr"].encode(), t["code"]):
        bad += 1
        print("MISMATCH", t["path"])
        print("  spec:", json.dumps(sv.show_exp(exp)))
        print("  test:", json.dumps({"stdout": t["stdout"], "stderr": t["stderr"], "exit": t["code"]}))
print("tests", len(tests), "evaluated", len(idx), "skipped", skipped, "mismatch", bad, stats)
