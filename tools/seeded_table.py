#!/usr/bin/env python3
"""Regenerates seeded/README.md from seeded/*/meta.json."""
import json, os, glob
root = os.path.join(os.path.dirname(os.path.dirname(os.path.abspath(__file__))), "seeded")
first_missed = json.load(open(os.path.join(root, "first_pass_missed.json"))) if os.path.exists(os.path.join(root, "first_pass_missed.json")) else {}
rows = []
for d in sorted(glob.glob(os.path.join(root, "*", "meta.json"))):
    m = json.load(open(d))
    name = os.path.basename(os.path.dirname(d))
    notes = ""
    np_ = os.path.join(os.path.dirname(d), "notes.md")
    if os.path.exists(np_):
        txt = open(np_).read().strip().splitlines()
        notes = next((l.strip("# ").strip() for l in txt if l.strip()), "")[:110]
    rows.append((name, m["property"], notes, ", ".join(m.get("detected_by", [])) or "**none**",
                 first_missed.get(name, "")))
out = ["# Seeded changes", "",
       "Each directory holds one change to eZanmoto/seed written by an independent sub-agent that saw only the text of",
       "one property and a scratch worktree (nothing from /verif): `patch.diff`, the demonstration (`demo.sd`,",
       "`demo.expected` = unmodified interpreter, `demo.mutant` = with the change), the author's `notes.md`, and",
       "`meta.json` (confirmation that it compiles, passes the complete existing test suite and that the demonstration",
       "differs; which checks were run against it with the patch applied to /repo and what they reported).",
       "None of these changes is ever committed to /repo.", "",
       "| change | property | what (author's note) | detected by (quick tier) | first pass |",
       "|---|---|---|---|---|"]
for r in rows:
    out.append("| %s | %s | %s | %s | %s |" % r)
n = len(rows)
det = sum(1 for r in rows if "none" not in r[3])
out += ["", "%d changes, %d detected by at least one quick check." % (n, det), "",
        "`first pass` = what happened the first time the property's own quick check was run against the change,",
        "before any strengthening: empty = detected; otherwise what was missing and what was added to the models."]
open(os.path.join(root, "README.md"), "w").write("\n".join(out) + "\n")
print(n, det)
