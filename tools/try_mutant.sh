#!/bin/sh
# usage: tools/try_mutant.sh <patch.diff> <check id>...   (applies the patch to /repo, runs the quick checks, restores /repo)
set -u
patch="$1"; shift
cd /verif
if ! git -C /repo diff --quiet; then echo "/repo has uncommitted changes"; exit 2; fi
git -C /repo apply "$patch" || { echo "patch does not apply"; exit 2; }
rc=0
for id in "$@"; do
  out=$(timeout 1800 ./check "$id" --tier "${TIER:-quick}" 2>&1)
  r=$?
  nv=$(printf '%s\n' "$out" | grep -c '^VIOLATION')
  echo "check $id: exit=$r violations_printed=$nv"
  printf '%s\n' "$out" | grep '^VIOLATION\|^  ' | head -4
  [ $r -ne 0 ] && rc=1
done
git -C /repo checkout -- .
git -C /verif checkout -- evidence 2>/dev/null
exit $rc
