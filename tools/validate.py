#!/usr/bin/env python3
"""Validates MANIFEST.json and evidence/*.json against the schemas (needs jsonschema: run with python3-vt)."""
import json, sys, glob, os
import jsonschema
root = os.path.dirname(os.path.dirname(os.path.abspath(__file__)))
ok = True
m = json.load(open(os.path.join(root, "MANIFEST.json")))
try:
    jsonschema.validate(m, json.load(open("/root/.vp/MANIFEST.schema.json")))
    print("MANIFEST ok:", len(m["checks"]), "checks,", len(m.get("not_applicable", [])), "n/a")
except jsonschema.ValidationError as e:
    ok = False; print("MANIFEST INVALID:", e.message)
ids = {json.loads(l)["id"] for l in open(os.path.join(root, "properties.jsonl"))}
claimed = {c["property_id"] for c in m["checks"]}
na = {c["property_id"] for c in m.get("not_applicable", [])}
if claimed | na != ids or claimed & na:
    ok = False; print("coverage of property ids wrong: missing", ids - claimed - na, "both", claimed & na)
es = json.load(open("/root/.vp/EVIDENCE.schema.json"))
for f in sorted(glob.glob(os.path.join(root, "evidence", "*.json"))):
    try:
        jsonschema.validate(json.load(open(f)), es)
        print("evidence ok:", os.path.basename(f))
    except jsonschema.ValidationError as e:
        ok = False; print("EVIDENCE INVALID", f, e.message)
sys.exit(0 if ok else 1)
